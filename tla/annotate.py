import re,sys
# usage: annotate.py src.tla dst.tla  ; inserts Apalache @type annotations before CONSTANTS/VARIABLES names
src=open(sys.argv[1]).read()
types={
 'RM':'Set(Int)','RMFault':'Set(Int)','RMDead':'Set(Int)','MaxView':'Int','MaxUndeliveredMessages':'Int',
}
def msgtype(fields): return 'Set({'+', '.join(f'{k}: {v}' for k,v in fields)+'})'
mod=re.search(r'MODULE (\w+)',src).group(1)
base=[('type','Str'),('rm','Int'),('view','Int')]
if mod=='dbftCentralizedCV':
    base=[('type','Str'),('rm','Int'),('view','Int'),('targetView','Int'),('sourceView','Int')]
m='{'+', '.join(f'{k}: {v}' for k,v in base)+'}'
vt={'msgs':f'Set({m})','blockAccepted':'Int -> Int'}
if mod=='dbftMultipool':
    vt['rmState']=f'Int -> {{type: Str, view: Int, pool: Set({m})}}'
else:
    vt['rmState']='Int -> {type: Str, view: Int}'
out=[];sec=None
for line in src.split('\n'):
    s=line.strip()
    if s.startswith('CONSTANTS'): sec='C'
    elif s.startswith('VARIABLES'): sec='V'
    elif re.match(r'^[A-Za-z]',line) and not s.startswith('\\*'): 
        if not (s.startswith('CONSTANTS') or s.startswith('VARIABLES')): sec=None
    mm=re.match(r'^\s+(\w+),?\s*$',line)
    if sec and mm:
        name=mm.group(1)
        t=(types if sec=='C' else vt).get(name)
        if t: out.append(f'  \\* @type: {t};')
    out.append(line)
open(sys.argv[2],'w').write('\n'.join(out))
