#!/usr/bin/env python3
"""C20: the shipped TLA+ models keep their stated invariants -- decided with Apalache (SMT).

For every run the five .tla files are read from /repo's current working tree, copied with
mechanically inserted @type annotations (annotate.py; the body is untouched, so any edit of a
guard is seen), wrapped by an MC module (constants of the shipped configurations, the state
constraint conjoined to Next) and handed to apalache-mc:

  * specs with an inductive invariant (basic dBFT 2.0, anti-MEV): three SMT queries
      Q1  Init => IndInv                      (--init=Init  --inv=IndInv --length=0)
      Q2  IndInv /\\ NextC => IndInv'           (--init=IndInv --inv=IndInv --length=1)
      Q3  IndInv => TypeOK /\\ InvTwoBlocksAccepted /\\ InvFaultNodesCount
    which together decide the stated invariants for EVERY reachable state (no depth bound),
    four validators, MaxView = 2 (subsumes 1), every placement of <= 1 faulty and/or dead node
    (the fault sets are solver variables).
  * the other specs (multipool, dBFT 2.1 three-staged CV, dBFT 2.1 centralized CV): bounded
    symbolic runs from Init of length k.

A failing Q2 is only a counterexample to induction; it (and every other alarm) is confirmed by
searching for a concrete behaviour from Init of the real spec -- bounded Apalache run first, then
TLC on the unmodified file -- and only such a trace is reported as VIOLATION (the trace file is
the replay). If no concrete trace exists the run exits 0 and the evidence says that the
inductive proof was lost and only the bounded claim holds.
"""
import argparse, json, os, re, shutil, subprocess, sys, time, glob
from concurrent.futures import ThreadPoolExecutor

HERE = os.path.dirname(os.path.abspath(__file__))
VERIF = os.path.dirname(HERE)
REPO = os.environ.get("VERIF_REPO", "/repo")
WORK = os.path.join(HERE, "work")

SPECS = [
    dict(key="dbft", path="formal-models/dbft/dbft.tla", module="dbft", mc="MC_dbft_basic.tla.in",
         invs=["TypeOK", "InvTwoBlocksAccepted", "InvFaultNodesCount"], constraint="MaxViewConstraint", extra_const=""),
    dict(key="dbft_antiMEV", path="formal-models/dbft_antiMEV/dbft.tla", module="dbft", mc="MC_dbft_antiMEV.tla.in",
         invs=["TypeOK", "InvTwoBlocksAccepted", "InvFaultNodesCount"], constraint="MaxViewConstraint", extra_const=""),
    dict(key="dbftMultipool", path="formal-models/dbftMultipool/dbftMultipool.tla", module="dbftMultipool", mc=None,
         invs=["TypeOK", "InvTwoBlocksAccepted", "InvFaultNodesCount"], constraint="ModelConstraint",
         extra_const="  /\\ MaxUndeliveredMessages = 6\n"),
    dict(key="dbftCV3", path="formal-models/dbft2.1_threeStagedCV/dbftCV3.tla", module="dbftCV3", mc="MC_dbftCV3.tla.in", mc_maxview=1,
         invs=["TypeOK", "InvTwoBlocksAccepted", "InvFaultNodesCount"], constraint="MaxViewConstraint", extra_const="",
         replay_configs=[([], []), ([0], [])], replay_configs_thorough=[([], []), ([], [0]), ([0], []), ([1], []), ([3], [])]),
    dict(key="dbftCentralizedCV", path="formal-models/dbft2.1_centralizedCV/dbftCentralizedCV.tla", module="dbftCentralizedCV", mc=None,
         invs=["TypeOK", "InvTwoBlocksAcceptedAdvanced", "InvFaultNodesCount"], constraint="MaxViewConstraint", extra_const=""),
]

GENERIC_MC = """---- MODULE MC ----
EXTENDS {module}

ConstInit ==
  /\\ RM = {{0, 1, 2, 3}}
  /\\ MaxView = {maxview}
{extra}  /\\ RMFault \\in SUBSET {{0, 1, 2, 3}}
  /\\ RMDead \\in SUBSET {{0, 1, 2, 3}}
  /\\ Cardinality(RMFault \\cup RMDead) <= 1

NextC == Next /\\ {constraint}'
Stated == {stated}
====
"""


def sh(cmd, cwd, timeout):
    t0 = time.time()
    try:
        p = subprocess.run(cmd, cwd=cwd, stdout=subprocess.PIPE, stderr=subprocess.STDOUT, timeout=timeout, text=True)
        return p.returncode, p.stdout, time.time() - t0
    except subprocess.TimeoutExpired as e:
        o = e.stdout or ""
        if isinstance(o, bytes):
            o = o.decode("utf-8", "replace")
        return -9, o + "\nTIMEOUT", time.time() - t0


def prepare(spec, maxview):
    d = os.path.join(WORK, spec["key"])
    shutil.rmtree(d, ignore_errors=True)
    os.makedirs(d)
    src = os.path.join(REPO, spec["path"])
    dst = os.path.join(d, spec["module"] + ".tla")
    rc, out, _ = sh([sys.executable, os.path.join(HERE, "annotate.py"), src, dst], d, 60)
    if rc != 0:
        raise RuntimeError("annotation failed: " + out)
    if spec["mc"]:
        mc = open(os.path.join(HERE, spec["mc"])).read().replace("@MAXVIEW@", str(maxview))
    else:
        mc = GENERIC_MC.format(module=spec["module"], maxview=maxview, extra=spec["extra_const"], constraint=spec["constraint"],
                               stated=" /\\ ".join(spec["invs"]))
    open(os.path.join(d, "MC.tla"), "w").write(mc)
    return d


def apalache(d, name, init, inv, length, timeout, nxt="NextC"):
    out_dir = os.path.join(d, "out_" + name)
    cmd = ["apalache-mc", "check", "--cinit=ConstInit", "--init=" + init, "--next=" + nxt, "--inv=" + inv, "--length=%d" % length,
           "--out-dir=" + out_dir, "MC.tla"]
    rc, out, dt = sh(cmd, d, timeout)
    m = re.search(r"The outcome is: (\w+)", out)
    outcome = m.group(1) if m else ("Timeout" if rc == -9 else "Unknown")
    trace = None
    if outcome == "Error":
        c = sorted(glob.glob(os.path.join(out_dir, "**", "violation1.tla"), recursive=True))
        if c:
            trace = c[-1]
    with open(os.path.join(WORK, "progress.log"), "a") as f:
        f.write("%s %s %s %.0fs\n" % (d, name, outcome, dt))
    return dict(name=name, init=init, inv=inv, length=length, outcome=outcome, rc=rc, seconds=round(dt, 1), trace=trace, tail=out[-1500:])


def tlc_replay(spec, maxview, fault, dead, timeout):
    """Search a concrete behaviour of the unmodified spec violating a stated invariant (replay of an alarm)."""
    d = os.path.join(WORK, spec["key"], "tlc_v%d_%s_%s" % (maxview, "".join(map(str, fault)) or "n", "".join(map(str, dead)) or "n"))
    shutil.rmtree(d, ignore_errors=True)
    os.makedirs(d)
    shutil.copy(os.path.join(REPO, spec["path"]), os.path.join(d, spec["module"] + ".tla"))
    fs = lambda s: "{" + ", ".join(map(str, s)) + "}"
    cfg = "INIT Init\nNEXT Next\nCONSTANTS\n  RM = {0, 1, 2, 3}\n  RMFault = %s\n  RMDead = %s\n  MaxView = %d\n" % (fs(fault), fs(dead), maxview)
    if spec["extra_const"]:
        cfg += "  MaxUndeliveredMessages = 6\n"
    cfg += "CONSTRAINT %s\nINVARIANTS\n%s\n" % (spec["constraint"], "\n".join("  " + i for i in spec["invs"]))
    open(os.path.join(d, "MC.cfg"), "w").write(cfg)
    rc, out, dt = sh(["tlc", "-workers", "8", "-deadlock", "-config", "MC.cfg", spec["module"] + ".tla"], d, timeout)
    viol = re.search(r"Invariant (\w+) is violated", out)
    res = dict(maxview=maxview, fault=fault, dead=dead, seconds=round(dt, 1), violated=viol.group(1) if viol else None, finished="Model checking completed" in out)
    if viol:
        tr = os.path.join(d, "trace.txt")
        open(tr, "w").write(out[out.find("Error:"):])
        res["trace"] = tr
    return res


def known_match(spec_key, tr):
    """A recorded known finding matches by (spec, violated invariant, whether a faulty node is needed)."""
    try:
        fs = json.load(open(os.path.join(VERIF, "known_findings.json")))["findings"]
    except Exception:
        return None
    for f in fs:
        if f.get("property") == "C20" and f.get("status") == "known" and f.get("spec") == spec_key and f.get("invariant") == tr["violated"] \
                and (not f.get("needs_faulty_node") or len(tr["fault"]) > 0):
            return f
    return None


def main():
    ap = argparse.ArgumentParser()
    ap.add_argument("--tier", default=os.environ.get("VERIF_TIER", "quick"))
    ap.add_argument("--only", default="")
    a = ap.parse_args()
    tier = a.tier
    t0 = time.time()
    os.makedirs(WORK, exist_ok=True)
    ev_path = os.path.join(VERIF, "evidence_scratch" if (os.environ.get("VERIF_REPO") or os.environ.get("VERIF_EVIDENCE_SCRATCH")) else "evidence", "C20.json")
    if os.path.exists(ev_path):
        os.remove(ev_path)
    bmc_len = int(os.environ.get("C20_BMC", {"quick": 4, "thorough": 8}[tier])) if tier in ("quick", "thorough") else 5
    q_timeout = 900 if tier == "quick" else 3600
    results, problems, violations, notes = {}, [], [], []
    known_printed = set()

    def run_spec(spec):
        if a.only and spec["key"] not in a.only.split(","):
            return spec["key"], None
        r = dict(queries=[], replays=[])
        try:
            maxview = spec.get("mc_maxview", 2) if spec["mc"] else (1 if tier == "quick" else 2)
            d = prepare(spec, maxview)
        except Exception as e:
            r["error"] = str(e)
            return spec["key"], r
        r["maxview"] = maxview
        alarm = False
        if spec["mc"]:
            qs = [("q1_init", "Init", "IndInv", 0), ("q2_step", "IndInv", "IndInv", 1), ("q3_implies", "IndInv", "Stated", 0)]
            with ThreadPoolExecutor(3) as ex:
                for q in ex.map(lambda t: apalache(d, t[0], t[1], t[2], t[3], q_timeout), qs):
                    r["queries"].append(q)
                    if q["outcome"] != "NoError":
                        alarm = True
            if tier == "thorough" or alarm:
                q = apalache(d, "bmc", "Init", "Stated", bmc_len, q_timeout)
                r["queries"].append(q)
        else:
            q = apalache(d, "bmc", "Init", "Stated", bmc_len, q_timeout)
            r["queries"].append(q)
            if q["outcome"] != "NoError":
                alarm = True
        r["alarm"] = alarm
        if alarm:
            # confirmation: a concrete behaviour from Init of the real spec
            bm = [q for q in r["queries"] if q["name"] == "bmc"]
            if bm and bm[0]["outcome"] == "Error" and bm[0]["trace"]:
                r["violation_trace"] = bm[0]["trace"]
            else:
                cfgs = spec.get("replay_configs_thorough" if tier == "thorough" else "replay_configs")
                if cfgs:
                    cfgs = [(maxview, f, dd) for f, dd in cfgs]
                else:
                    # shipped view bound first (small state spaces: every single-fault placement), then the wider one
                    one = [([], []), ([0], []), ([1], []), ([2], []), ([3], []), ([], [0]), ([0], [0]), ([1], [1])]
                    cfgs = [(1, f, dd) for f, dd in one]
                    if maxview > 1:
                        cfgs += [(maxview, f, dd) for f, dd in [([], []), ([0], []), ([1], [])]]
                trs = []
                phases = [[c3 for c3 in cfgs if c3[0] == 1], [c3 for c3 in cfgs if c3[0] != 1]]
                for ph in phases:
                    if not ph or any(t["violated"] and not known_match(spec["key"], t) for t in trs):
                        continue
                    with ThreadPoolExecutor(4) as ex2:
                        for tr in ex2.map(lambda c3: tlc_replay(spec, c3[0], c3[1], c3[2], 900 if tier == "quick" else 3600), ph):
                            trs.append(tr)
                # an unfinished wide search does not matter once a narrower one has produced a trace
                if any(t["violated"] for t in trs):
                    for t in trs:
                        t["finished"] = t["finished"] or not t["violated"]
                for tr in trs:
                    r["replays"].append(tr)
                    if tr["violated"]:
                        kf = known_match(spec["key"], tr)
                        if kf:
                            r.setdefault("known", []).append(dict(id=kf["id"], what=kf["what"], trace=tr["trace"], fault=tr["fault"], dead=tr["dead"]))
                        elif "violation_trace" not in r:
                            r["violation_trace"] = tr["trace"]
                    elif not tr["finished"]:
                        r.setdefault("unfinished", []).append("TLC did not finish for RMFault=%s RMDead=%s" % (tr["fault"], tr["dead"]))
        return spec["key"], r

    with ThreadPoolExecutor(5) as ex:
        for key, r in ex.map(run_spec, SPECS):
            if r is not None:
                results[key] = r

    for key, r in results.items():
        if "error" in r:
            problems.append("%s: %s" % (key, r["error"]))
            continue
        for q in r["queries"]:
            if q["outcome"] not in ("NoError", "Error"):
                problems.append("%s/%s: apalache outcome %s (rc %s)" % (key, q["name"], q["outcome"], q["rc"]))
        for u in r.get("unfinished", []):
            problems.append("%s: %s" % (key, u))
        for k in r.get("known", []):
            keep = os.path.join(VERIF, "replays", "C20")
            os.makedirs(keep, exist_ok=True)
            dst = os.path.join(keep, "%s-%s-trace.txt" % (key, k["id"]))
            shutil.copy(k["trace"], dst)
            if k["id"] not in known_printed:
                known_printed.add(k["id"])
                print("KNOWN-FINDING: property=C20 %s %s (RMFault=%s RMDead=%s, replay=%s)" % (k["id"], k["what"][:300], k["fault"], k["dead"], dst))
        if r.get("violation_trace"):
            keep = os.path.join(VERIF, "replays", "C20")
            os.makedirs(keep, exist_ok=True)
            dst = os.path.join(keep, key + "-" + os.path.basename(r["violation_trace"]))
            shutil.copy(r["violation_trace"], dst)
            violations.append((key, dst))
        elif r.get("alarm") and not r.get("known"):
            und = [q for q in r["queries"] if q["outcome"] not in ("NoError", "Error")]
            if not und:
                notes.append("%s: the inductive-invariant proof was lost on this tree (counterexample to induction) but neither the bounded solver run nor an exhaustive TLC search of the shipped configurations produced a behaviour violating a stated invariant; only the bounded claim (length %d) is made for this spec" % (key, bmc_len))

    nq = sum(len(r.get("queries", [])) for r in results.values())
    solver_s = sum(q["seconds"] for r in results.values() for q in r.get("queries", []))
    unb = [k for k, r in results.items() if not r.get("alarm") and any(q["name"] == "q2_step" for q in r.get("queries", []))]
    for k, r in results.items():
        for rp in r.get("replays", []):
            rp.pop("trace", None)
    ev = {
        "property_id": "C20", "tier": tier, "seed": int(os.environ.get("VERIF_SEED", "0") or 0), "level": "model_checking",
        "wall_s": round(time.time() - t0, 1), "violations": len(violations),
        "assumptions": [
            "Apalache 0.58 (SMT, z3) and its TLA+ front end are trusted; type annotations are inserted mechanically before the CONSTANTS/VARIABLES names, the specification body is the working tree's",
            "four validators {0,1,2,3}; MaxView = 2 for the specs with an inductive invariant (subsumes the shipped MaxView = 1), shipped MaxView = 1 for the bounded runs in quick; MaxUndeliveredMessages = 6 as shipped",
            "fault sets are solver variables: every RMFault, RMDead with |RMFault u RMDead| <= 1 (the specs' ASSUME), which includes the shipped all-good configuration",
            "the state constraint of the shipped model configuration is conjoined to Next (TLC's CONSTRAINT semantics)",
        ],
        "coverage": {
            "states": nq, "transitions": nq, "obligations": nq, "discharged": sum(1 for r in results.values() for q in r.get("queries", []) if q["outcome"] == "NoError"),
            "evaluations": nq, "distinct_nontrivial": nq, "exhaustive": False,
            "rule": "one evaluation = one Apalache (SMT) query; a query is discharged when the outcome is NoError",
            "checker_cmd": "python3 tla/check_c20.py --tier " + tier,
            "trusted_base": ["Apalache 0.58.0 + z3", "tla/annotate.py (type annotations)", "tla/MC_*.tla.in (wrappers and inductive invariants)", "TLC 2.x as replayer of alarms only"],
            "explanation": __doc__.strip().split("\n\n")[1],
            "specs": results,
            "unbounded_depth_specs": unb,
            "bounded_specs": {k: bmc_len for k, r in results.items() if k not in unb},
            "solver_time_s": round(solver_s, 1),
            "outside_the_claim": ["validator counts other than 4", "MaxView > 2", "liveness formulas of the .launch files", "InvDeadlock of the multipool model (not among the invariants the property names)",
                                  "for multipool / CV3 / centralizedCV: behaviours longer than the bounded length"],
            "run_notes": "; ".join(problems + notes),
        },
    }
    os.makedirs(os.path.dirname(ev_path), exist_ok=True)
    json.dump(ev, open(ev_path, "w"), indent=1)
    # clean Apalache/SANY litter
    for p in glob.glob("/tmp/SANY*") + glob.glob("/tmp/apalache*"):
        shutil.rmtree(p, ignore_errors=True)
    if violations:
        for key, dst in violations:
            print("VIOLATION property=C20 replay=%s" % dst)
            print("  spec=%s" % key)
        return 1
    for n in notes:
        print("NOTE:", n)
    if problems:
        for p in problems:
            print("INCONCLUSIVE:", p)
        return 2
    print("OK property=C20 tier=%s specs=%d queries=%d unbounded=%s wall=%.0fs" % (tier, len(results), nq, ",".join(unb), time.time() - t0))
    return 0


if __name__ == "__main__":
    sys.exit(main())
