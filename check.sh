#!/bin/sh
# usage: ./check.sh <property> [quick|thorough]
# Runs one property's check against /repo's current working tree (the encoding is regenerated
# from source on every run). Exit 0 = held on everything explored; 1 = VIOLATION (replayed
# natively); 2 = inconclusive (timeout, unwinding bound, vacuity or encoder disagreement).
cd "$(dirname "$0")"
. ./env.sh
export VERIF_DIR="$(pwd)"
prop="$1"
tier="${2:-${VERIF_TIER:-quick}}"
if [ ! -x bin/gosx ] || [ -n "$(find engine -name '*.go' -newer bin/gosx 2>/dev/null | head -1)" ]; then
  ./setup.sh >/dev/null 2>&1 || { echo "setup failed"; exit 2; }
fi
case "$prop" in
  C20) exec python3 tla/check_c20.py --tier "$tier" ;;
  *)   exec bin/gosx check -tier "$tier" "$prop" ;;
esac
