#!/bin/sh
# usage: tools/seedtest.sh <dir with patch.diff + demo_test.go> <property> [confirm|check|both]
# confirm: in a scratch worktree outside /repo: suite passes with the patch, demo fails with it, demo passes without it.
# check:   apply the patch to /repo, run the property's quick check, restore /repo.
cd "$(dirname "$0")/.."; . ./env.sh
dir="$1"; prop="$2"; mode="${3:-both}"
if [ "$mode" != check ]; then
  wt=$(mktemp -d /tmp/seedwt.XXXXXX); rmdir $wt
  git -C /repo worktree add -q --detach $wt HEAD || exit 9
  demo=$(ls $dir/demo*_test.go 2>/dev/null | head -1)
  ( cd $wt
    git apply "$dir/patch.diff" || { echo "CONFIRM: patch does not apply"; exit 1; }
    go build ./... || { echo "CONFIRM: build fails"; exit 1; }
    if go test -vet=off -count=1 ./... >/tmp/seed_suite.log 2>&1; then echo "CONFIRM: suite passes with patch"; else echo "CONFIRM: SUITE FAILS with patch"; tail -5 /tmp/seed_suite.log; fi
    cp "$demo" ./zz_seed_demo_test.go
    if go test -vet=off -count=1 -run "$(grep -o 'func Test[A-Za-z0-9_]*' zz_seed_demo_test.go | sed 's/func //' | paste -sd'|')" . >/tmp/seed_demo1.log 2>&1; then echo "CONFIRM: DEMO PASSES with patch (bad)"; else echo "CONFIRM: demo fails with patch"; fi
    git checkout -q -- . 
    if go test -vet=off -count=1 -run "$(grep -o 'func Test[A-Za-z0-9_]*' zz_seed_demo_test.go | sed 's/func //' | paste -sd'|')" . >/tmp/seed_demo0.log 2>&1; then echo "CONFIRM: demo passes without patch"; else echo "CONFIRM: DEMO FAILS without patch (bad)"; tail -5 /tmp/seed_demo0.log; fi
  )
  git -C /repo worktree remove --force $wt
fi
if [ "$mode" != confirm ]; then
  t0=$(date +%s)
  tools/with_patch.sh "$dir/patch.diff" -- ./check.sh $prop quick > /tmp/seed_check_$prop.log 2>&1; rc=$?
  echo "CHECK $prop exit=$rc wall=$(( $(date +%s) - t0 ))s"; grep -E "^VIOLATION|^INCONCLUSIVE|^KNOWN|^OK" /tmp/seed_check_$prop.log | cut -c1-220 | head -6
  grep -E "obligation=" /tmp/seed_check_$prop.log | awk '{print $1}' | sort | uniq -c | head
fi
