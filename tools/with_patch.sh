#!/bin/sh
# usage: tools/with_patch.sh [-R] <patch.diff> -- <command...>
# Applies a patch to /repo's working tree, runs the command, and always restores the tree.
rev=""
if [ "$1" = "-R" ]; then rev="-R"; shift; fi
patch="$1"; shift; [ "$1" = "--" ] && shift
git -C /repo diff --quiet || { echo "/repo working tree is not clean"; exit 9; }
git -C /repo apply $rev "$patch" || { echo "patch does not apply"; exit 9; }
VERIF_EVIDENCE_SCRATCH=1 "$@"; rc=$?
git -C /repo checkout -- . ; git -C /repo clean -fdq
exit $rc
