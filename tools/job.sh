#!/bin/sh
# usage: tools/job.sh <want> <params> [entry]   -- debug helper: one symbolic job with native replay, compact summary
cd "$(dirname "$0")/.."; . ./env.sh
bin/gosx job -entry "${3:-H_step}" -want "$1" -params "$2" -replay 2>/tmp/job.err | python3 -c "
import sys,json
r=json.load(sys.stdin)
print({k:r.get(k) for k in ['paths','wall_s','incomplete','internal','cut','killed']})
print({k:(v['checked'],v['trivial'],v['unsat'],v['sat'],v['undecided']) for k,v in (r.get('asserts') or {}).items()})
print('known',r.get('known_hits'),'panics',r.get('panics'), 'covers', r.get('covers'))
for v in (r.get('violations') or [])[:5]: print('VIOL', v.get('id'), v.get('where'), v.get('extra'))
"
grep -E "^REPLAY|rror|panic" /tmp/job.err | head -${JOBLINES:-8}
