#!/usr/bin/env python3
"""Regenerates /verif/MANIFEST.json from the per-property table below."""
import json, os
V = os.path.dirname(os.path.dirname(os.path.abspath(__file__)))
props = [json.loads(l)['id'] for l in open(os.path.join(V, 'properties.jsonl'))]

TB = ("Trusted: go/ssa lowering (x/tools v0.29.0), the gosx symbolic executor, the harness models/stubs listed in the "
      "evidence file's assumptions, z3/cvc5. Every reported counterexample is replayed against the natively compiled code first.")

claimed = {
 "C06": dict(
   category="model_checking",
   text=("Solver-decided for the WHOLE parameter domain: the real N/F/M/GetPrimaryIndex are executed symbolically with the validator count "
         "(1..65535), height (32 bit) and view (8 bit) as solver variables; each obligation (quorum arithmetic, index range, closed form, "
         "rotation by view and by height, pairwise distinctness inside a window of n views/heights, independence of other node state) is one "
         "unsat query, no enumeration of N. This is the right level because the property is pure integer arithmetic on three variables."),
   design_ref="DESIGN.md §6 C06",
   technique="symbolic execution of go/ssa + SMT (cvc5 bit-vectors-as-integers, z3 cross-check)",
   note=TB + " Pigeonhole step (n distinct indices in [0,n) are a permutation) is argued, not queried."),
}

na = {
}

checks = []
for pid in props:
    if pid in claimed:
        c = claimed[pid]
        checks.append({
            "property_id": pid,
            "quick_cmd": f"./check.sh {pid} quick",
            "thorough_cmd": f"./check.sh {pid} thorough",
            "evidence_file": f"/verif/evidence/{pid}.json",
            "replay_cmd_template": "bin/gosx replay {path}",
            "engine": c.get("engine", "gosx"),
            "level_claimed": {"category": c["category"], "text": c["text"], "design_ref": c["design_ref"]},
            "level_note": c["note"],
            "technique": c["technique"],
        })
m = {
 "version": 1,
 "setup_cmd": "./setup.sh",
 "hooks": {
  "guard": "verif",
  "enable": "no hooks are needed: harness code is injected in-package with go/packages overlays (symbolic side) and `go test -overlay` (native replay); nothing under /repo is built with a tag and no file is written there",
  "baseline_off_cmd": "cd /repo && PATH=/root/go/pkg/mod/golang.org/toolchain@v0.0.1-go1.24.0.linux-amd64/bin:$PATH GOTOOLCHAIN=local GOFLAGS=-mod=mod GOPROXY=off GOSUMDB=off go test -vet=off -count=1 -timeout 25m ./...",
  "source_commits": [],
  "add_only": True,
 },
 "engines": [
  {"name": "gosx", "path": "/verif/engine", "serves_properties": [p for p in props if p in claimed and claimed[p].get("engine", "gosx") == "gosx"],
   "kind_free_text": "symbolic executor for go/ssa written for this task; emits SMT-LIB2 to long-lived z3/cvc5 processes; forks, merges, replays models natively"},
  {"name": "apalache", "path": "/verif/tla", "serves_properties": [p for p in props if p in claimed and claimed[p].get("engine") == "apalache"],
   "kind_free_text": "Apalache 0.58 (SMT-based symbolic model checker for TLA+) on type-annotated copies of the shipped specs regenerated from /repo at every run"},
 ],
 "checks": checks,
 "notes": "See DESIGN.md. Exit codes of every check: 0 held / 1 VIOLATION (replayed) / 2 inconclusive (never reported as success).",
 "not_applicable": [{"property_id": p, "reason": na.get(p, "check not built yet (work in progress, see DESIGN.md)")} for p in props if p not in claimed],
}
json.dump(m, open(os.path.join(V, 'MANIFEST.json'), 'w'), indent=1)
print("claimed:", sorted(claimed), "na:", len(m["not_applicable"]))
