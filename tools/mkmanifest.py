#!/usr/bin/env python3
"""Regenerates /verif/MANIFEST.json from the per-property table below."""
import json, os
V = os.path.dirname(os.path.dirname(os.path.abspath(__file__)))
props = [json.loads(l)['id'] for l in open(os.path.join(V, 'properties.jsonl'))]

TB = ("Trusted: go/ssa lowering (x/tools v0.29.0), the gosx symbolic executor, the harness models/stubs listed in the "
      "evidence file's assumptions, z3/cvc5. Every reported counterexample is replayed against the natively compiled code first.")

claimed = {
 "C06": dict(
   category="model_checking",
   text=("Solver-decided for the WHOLE parameter domain: the real N/F/M/GetPrimaryIndex are executed symbolically with the validator count "
         "(1..65535), height (32 bit) and view (8 bit) as solver variables; each obligation (quorum arithmetic, index range, closed form, "
         "rotation by view and by height, pairwise distinctness inside a window of n views/heights, independence of other node state) is one "
         "unsat query, no enumeration of N. This is the right level because the property is pure integer arithmetic on three variables."),
   design_ref="DESIGN.md §6 C06",
   technique="symbolic execution of go/ssa + SMT (cvc5 bit-vectors-as-integers, z3 cross-check)",
   note=TB + " Pigeonhole step (n distinct indices in [0,n) are a permutation) is argued, not queried."),
}

STEP_TECH = "symbolic execution of go/ssa (one inductive step from an arbitrary invariant state) + SMT (z3/cvc5 bit-vectors), native replay of counterexamples"
STEP_NOTE = TB + (" The pre-state ranges over every state satisfying the representation invariant Inv (DESIGN §5), whose preservation by every API call is itself "
  "discharged (obligation INV); bounds (N=4 quick, sizes of transaction lists/recovery messages) are in the evidence file; application callbacks are arbitrary deterministic functions.")
def step(text, ref):
    return dict(category="model_checking", text=text, design_ref=ref, technique=STEP_TECH, note=STEP_NOTE)
claimed.update({
 "C02": step("Bounded symbolic model checking of the real OnReceive/OnTimeout/OnTransaction: from EVERY Inv state (N=4, symbolic height/view/tables/flags/callback results, Byzantine payload contents) one call is executed on all feasible paths and at each ProcessBlock/ProcessPreBlock callback the solver proves the decision certificate (>= M current-view commits/pre-commits verifying against exactly that block; block = tip+1 with the proposal's content in order). unsat = holds for all values within the bounds; the one known exception (KF-1) is carved out by an explicit predicate and printed as KNOWN-FINDING.", "DESIGN.md §6 C02"),
 "C03": step("Same one-step symbolic execution; obligations at every Broadcast callback and on the post-state: own slot holds exactly the payload sent, retransmitted (pre)commit is the stored object (also inside recovery messages), no ChangeView and no view/height change once an own commit/pre-commit is stored, view monotone, every sent payload carries the node's height/view/index. Inductive over histories of any length because the pre-state is any Inv state.", "DESIGN.md §6 C03"),
 "C04": step("Same one-step symbolic execution; at every PrepareResponse broadcast: proposal stored, sent by GetPrimaryIndex(view), all transactions held, the verification callback accepted exactly this block in this call, response names the proposal hash; at the first Commit/PreCommit broadcast: >= M current-view preparations naming the proposal; a higher view is entered only with >= M stored change-view requests for it or above.", "DESIGN.md §6 C04"),
 "C07": step("Same one-step symbolic execution with the anti-MEV enabling height a solver variable (below/at/above the node's height): Commit broadcast only with own PreCommit stored, >= M current-view PreCommits and preBlockProcessed; ProcessPreBlock at most once per height and only at enabled heights; NewBlockFromContext/Sign only after the pre-block; no PreCommit/SetData/ProcessPreBlock at disabled heights.", "DESIGN.md §6 C07"),
 "C10": step("Same one-step symbolic execution with a model of the injected Timer: after every API call from any Inv state an undecided, non-watch-only node has its timer armed for exactly (BlockIndex, ViewNumber); every Timer.Reset is for the epoch current at that instant with a non-negative duration (views <= 21, TimePerBlock <= 2^40 ns).", "DESIGN.md §6 C10"),
 "C13": step("Same one-step symbolic execution with the node watch-only through either cause (index -1, or flag set at a primary/backup index): any Broadcast, Block.Sign or PreBlock.SetData callback on any feasible path is a violation; Inv keeps the own slots empty.", "DESIGN.md §6 C13"),
 "C05": step("Two symbolic harnesses on the real code: (1) one step from every DECIDED Inv state for every API: whole-state fingerprint unchanged, no ProcessBlock/ProcessPreBlock, no timer call, no broadcast except a RecoveryMessage answering a RecoveryRequest; at most one successful ProcessBlock per call from undecided states; (2) Reset/Start from an arbitrary Inv state with a symbolic future-message cache, any ledger jump, changing validator count and own index: height/prev-hash/validators/index/timing from the callbacks, view 0 unless M cached change views, nothing retained but cached payloads of the entered height, flags cleared, no cache inbox at or below the entered height, admissible cached payloads are in their tables.", "DESIGN.md §6 C05"),
 "C11": step("One-step symbolic execution with the input constrained, per job, to one class of inadmissible input of the statement or to a payload already stored in its slot: whole-state fingerprint equal before/after (sender's LastSeenMessage excepted), no callback fires (re-delivery: nothing but a RecoveryMessage). Every implicit Go panic on any feasible path of any API from any Inv state with arbitrary callback results is a violation. The re-delivered-ChangeView exception KF-2 is a recorded known finding.", "DESIGN.md §6 C11"),
 "C12": step("One-step symbolic execution of the real OnTransaction from every Inv state of a backup that stored the proposal, misses exactly the supplied transaction, has not answered and is not asking to leave the view: a PrepareResponse for that proposal or a ChangeView is broadcast in that call; Inv conjunct 7 (every proposed hash not held is still in MissingTransactions while an answer is owed) is preserved by every API, including a view change plus cached next-view proposal inside the same call.", "DESIGN.md §6 C12"),
 "C01": dict(category="model_checking",
   text=("Agreement is decided compositionally, every solver-decidable part on the real code: (L1/L2) commit lock and single commit with identical retransmissions, (L3) decision certificate at every ProcessBlock: >= M current-view commits verifying against exactly that block, (L4/L5) own commit signs the header built from the stored proposal and only payloads of the node's height are stored: each discharged by one symbolic step of the relevant APIs from EVERY Inv state (N=4, anti-MEV enabling height symbolic); (Q) on the real M()/F(): any two M-sets minus any F-set intersect for every N<=10 (bit-set query) and 2M-N>=F+1 for every N<=65535. The step from these to the multi-node statement is a short paper argument (DESIGN §6 C01); a whole-network search is outside this technique. On the unchanged tree L3 fails inside the recorded carve-out KF-1 (a real fork with one Byzantine primary, not repairable without contradicting an existing test) and is printed as KNOWN-FINDING."),
   design_ref="DESIGN.md §6 C01", technique=STEP_TECH + "; quorum intersection as SMT set/arithmetic queries; composition argued", note=STEP_NOTE),
 "C15": dict(category="model_checking",
   text=("Symbolic execution of the real proposing branch (OnTimeout/OnNewTransaction/Start -> sendPrepareRequest -> Fill -> getTimestamp) with previous timestamp, clock reading, timestamp increment (default 10^6 and ANY value in [1,2^40]) and pool content as solver variables: timestamp strictly increasing, equal to max(previous+increment, clock truncated to the increment), NewPrepareRequest/payload/context/primary's block all carry exactly (timestamp, nonce, pool hashes in order). Division by the increment is decided by cvc5's bit-vectors-as-integers translation for the whole 64-bit domain."),
   design_ref="DESIGN.md §6 C15", technique="symbolic execution of go/ssa + SMT (cvc5 --solve-bv-as-int for division by the increment)", note=STEP_NOTE),
 "C20": dict(category="model_checking", engine="apalache",
   text=("Apalache (SMT-based symbolic model checker) on type-annotated copies of the five shipped .tla files regenerated from the working tree at every run. Basic dBFT 2.0 and anti-MEV models: an inductive invariant is proved (Init => IndInv, IndInv /\\ Next => IndInv', IndInv => TypeOK /\\ InvTwoBlocksAccepted /\\ InvFaultNodesCount) for four validators, MaxView 2 and EVERY placement of <= 1 faulty/dead node (fault sets are solver variables): the stated invariants hold in every reachable state, no depth bound. dBFT 2.1 three-staged CV model: the natural candidate invariant is NOT inductive and the counterexample is real: TLC replays it to a behaviour from Init that violates InvTwoBlocksAccepted with one permitted faulty node (recorded known finding KF-3); the all-good configuration is re-checked exhaustively on every run. Multipool and centralized CV models: bounded symbolic runs from Init (length 4 quick / 8 thorough) only. An alarm (counterexample to induction or bounded violation) is confirmed by a concrete behaviour from Init (bounded Apalache run, then TLC on the unmodified spec) before it is reported."),
   design_ref="DESIGN.md §6 C20", technique="Apalache: SMT-based inductive-invariant checking and bounded symbolic execution of the TLA+ specs; TLC only replays alarms",
   note="Trusted: Apalache 0.58 + z3, the mechanical type annotation, the hand-written inductive invariants in tla/MC_*.tla.in (they only strengthen what is proved; a wrong one fails Q1/Q2, it cannot make a false claim pass Q3)."),
 "C09": dict(category="model_checking",
   text=("PARTIAL by design: the network-level statement (every live validator decides after silence/partition/restart) is a whole-network liveness property over virtual time and is NOT decided. Solver-decided on the real code, one symbolic step from every Inv state (N=4): the timeout ladder (a current-epoch timeout on an undecided validator always acts and re-arms; committed nodes resend and never ask for a view change; ChangeView only while <= F validators are committed-or-lost, RecoveryRequest otherwise), the responder selection (exactly the committed nodes and the F+1 validators after the sender answer, watch-only never), and distinct primaries over n consecutive views for every n (with C06). These are the necessary per-node ingredients; each catches a class of regressions."),
   design_ref="DESIGN.md §6 C09", technique=STEP_TECH, note=STEP_NOTE + " Emergent liveness of the network is outside the claim."),
 "C16": dict(category="model_checking",
   text=("PARTIAL by design: the fault-free-network statement about proposal spacing is not decided (whole-network runs in virtual time). Solver-decided on the real OnTimeout/OnNewTransaction from every Inv state at view 0 with symbolic TimePerBlock <= MaxTimePerBlock: idle primary defers an empty proposal (subscribe once, re-arm max-min), proposes on the next expiry or on a new-transaction notification in that call; idle backup does not ask for a view change (subscribe, re-arm 2max-2min >= 0), a notification re-arms 2*min without ChangeView; notification without subscription changes nothing; with the extension not configured no path subscribes (a call of the nil callback would be a panic = violation)."),
   design_ref="DESIGN.md §6 C16", technique=STEP_TECH, note=STEP_NOTE + " Network-level spacing is outside the claim."),
 "C14": dict(category="model_checking",
   text=("RELATIONAL symbolic execution of the real code: two worlds whose absolute time references (injected clock, lastBlockTime, prepareSentTime, lastBlockTimestamp, Reset argument) differ by any multiple of the timestamp increment run the same API call with the same arguments and callback results from every pair of related Inv states; every reading of the machine's wall clock is an unconstrained fresh value in each world. The solver proves equal event sequences (self-made timestamps shifted by the offset, Timer.Reset/Extend durations identical) and related post-states (instants shifted, round-trip estimates and everything else equal); one relational step from every related pair covers scripted runs of any length. The truncation lemma is proved separately for all 64-bit clocks and instantiated."),
   design_ref="DESIGN.md §6 C14", technique="relational (two-run) symbolic execution of go/ssa + SMT (cvc5 bit-vectors-as-integers, one-shot mode for the division lemmas)", note=STEP_NOTE),
 "C18": dict(category="model_checking",
   text=("Bounded symbolic model checking of the real timer package: every sequence of up to 4 (thorough 5) operations from {Reset(d>0), Reset(0), Extend, time passes} is executed on the real New/Reset/Extend/stop/drain/C against a model of Go's runtime timers and channels, with heights, views, durations and EVERY clock reading (time.Now, time.Since, inside NewTimer) as non-decreasing solver variables. The solver proves for all of them: latest epoch reported, the timer delivers, never earlier than reset instant + duration + extensions, not later than the same counted from the end of the last operation, zero-duration reset fires at once with its own (not a stale) expiry; blocking forever is a violation. Counterexamples are replayed in real time against the compiled package."),
   design_ref="DESIGN.md §6 C18", technique="symbolic execution of go/ssa with a runtime-timer/channel model + SMT (cvc5 bit-vectors-as-integers)", note=TB + " The Go runtime's timer semantics (>= 1.23) are modelled, not executed; sequences longer than the bound are outside the claim."),
 "C08": dict(category="model_checking",
   text=("Bounded symbolic model checking of one real validator through a complete fault-free round: the harness plays the N-1 honest peers and the executor forks on every choice of the next message, so EVERY delivery order is explored (N=4: all 720 orders per role; N=3 with and without anti-MEV; N=1,2), including responses/pre-commits/commits before the proposal, up to two messages delivered before the height is entered (future-message cache, then Reset) and a duplicated message, each order with all contents (height, tip, timestamps, nonce, transaction, clock) symbolic. For every order the solver proves: block handed over exactly once, in view 0, equal to the proposal; no ChangeView/RecoveryRequest; own messages at most once; no panic. The multi-node statement follows because in a fault-free round each validator's emissions depend only on what it received."),
   design_ref="DESIGN.md §6 C08", technique="bounded symbolic execution of go/ssa (all delivery orders by forking, symbolic contents) + SMT", note=TB + " Anti-MEV at N=4 and N>=5 are outside the bound; several consecutive rounds are covered by the inductive step checks (C05, C10), not by this run."),
 "C17": dict(category="model_checking",
   text=("PARTIAL by design. Solver-decided: the simulation's REAL event loop (simNode.Run with its select, ProcessBlock, CurrentHeight) is executed symbolically for every sequence of select outcomes up to 5 iterations (6 thorough) against the library's CONTRACT -- the four library calls are redirected to summaries stating exactly what the step checks C02/C05 prove on the real library (Start/Reset: height = ledger+1, undecided; an event may hand one block of that height to ProcessBlock, after which the instance ignores everything until Reset). Proved: no event ever reaches a decided instance that was not re-initialised (otherwise the chain stops there), the instance always works on the height after the application's tip, the ledger grows by one per decided round. A counterexample is replayed by running the real binary (4 validators, 13 s). Not decided: goroutine schedules of the multi-node program, pacing, agreement between nodes, and the gob/SHA-256/ECDSA reference code behind internal/consensus (not encodable)."),
   design_ref="DESIGN.md §6 C17", technique="symbolic execution of go/ssa (real event loop, library replaced by its solver-checked contract) + SMT; replay on the real binary", note=TB + " The summaries are part of the claim: they are justified by C02.O3, C05.O1-O3, which are checked on the library code."),
})

na = {
 "C19": "Not applicable to solver-based checking of the real code: every clause depends on code that cannot be encoded within reach -- encoding/gob (reflection-driven, self-describing streams), SHA-256 (\"the hash changes whenever a field changes\" is collision resistance, not an SMT question), ECDSA P-256 and decoder robustness on arbitrary bytes. Replacing gob/SHA/ECDSA by injective uninterpreted functions would decide facts about the stubs, not about the code; the one decidable fragment (pairwise Merkle tree over an injective hash for <= 8 leaves) is too small to claim the property on. See DESIGN.md §10 (including defects observed while reading that a run-the-code technique should confirm).",
}

# thorough commands are registered only where the thorough plan ran clean on the unchanged tree
# in this sandbox (DESIGN.md section 13); the other thorough plans exist (`./check.sh <id> thorough`)
# but were not run to completion before registration, so they are not part of the interface.
THOROUGH_VERIFIED = {"C03", "C05", "C06", "C10", "C13", "C16", "C17", "C18"}

checks = []
for pid in props:
    if pid in claimed:
        c = claimed[pid]
        checks.append({
            "property_id": pid,
            "quick_cmd": f"./check.sh {pid} quick",
            **({"thorough_cmd": f"./check.sh {pid} thorough"} if pid in THOROUGH_VERIFIED else {}),
            "evidence_file": f"/verif/evidence/{pid}.json",
            "replay_cmd_template": "bin/gosx replay {path}" if c.get("engine", "gosx") == "gosx" else "cat {path}",
            "engine": c.get("engine", "gosx"),
            "level_claimed": {"category": c["category"], "text": c["text"], "design_ref": c["design_ref"]},
            "level_note": c["note"],
            "technique": c["technique"],
        })
m = {
 "version": 1,
 "setup_cmd": "./setup.sh",
 "hooks": {
  "guard": "verif",
  "enable": "no hooks are needed: harness code is injected in-package with go/packages overlays (symbolic side) and `go test -overlay` (native replay); nothing under /repo is built with a tag and no file is written there",
  "baseline_off_cmd": "cd /repo && PATH=/root/go/pkg/mod/golang.org/toolchain@v0.0.1-go1.24.0.linux-amd64/bin:$PATH GOTOOLCHAIN=local GOFLAGS=-mod=mod GOPROXY=off GOSUMDB=off go test -vet=off -count=1 -timeout 25m ./...",
  "source_commits": [],
  "add_only": True,
 },
 "engines": [
  {"name": "gosx", "path": "/verif/engine", "serves_properties": [p for p in props if p in claimed and claimed[p].get("engine", "gosx") == "gosx"],
   "kind_free_text": "symbolic executor for go/ssa written for this task; emits SMT-LIB2 to long-lived z3/cvc5 processes; forks, merges, replays models natively"},
  {"name": "apalache", "path": "/verif/tla", "serves_properties": [p for p in props if p in claimed and claimed[p].get("engine") == "apalache"],
   "kind_free_text": "Apalache 0.58 (SMT-based symbolic model checker for TLA+) on type-annotated copies of the shipped specs regenerated from /repo at every run"},
 ],
 "checks": checks,
 "notes": "See DESIGN.md. Exit codes of every check: 0 held / 1 VIOLATION (replayed) / 2 inconclusive (never reported as success).",
 "not_applicable": [{"property_id": p, "reason": na.get(p, "check not built yet (work in progress, see DESIGN.md)")} for p in props if p not in claimed],
}
json.dump(m, open(os.path.join(V, 'MANIFEST.json'), 'w'), indent=1)
print("claimed:", sorted(claimed), "na:", len(m["not_applicable"]))
