#!/bin/sh
# usage: tools/runall.sh [tier] [props...]  -- runs the registered checks one after another, one summary line each
cd "$(dirname "$0")/.."
tier="${1:-quick}"; shift
props="$*"; [ -z "$props" ] && props=$(python3 -c "import json;print(' '.join(c['property_id'] for c in json.load(open('MANIFEST.json'))['checks']))")
for p in $props; do
  t0=$(date +%s); ./check.sh $p $tier > /tmp/runall_$p.log 2>&1; rc=$?
  echo "$p exit=$rc wall=$(( $(date +%s) - t0 ))s $(grep -cE '^VIOLATION' /tmp/runall_$p.log) violations, $(grep -cE '^INCONCLUSIVE' /tmp/runall_$p.log) inconclusive, $(grep -cE '^KNOWN-FINDING' /tmp/runall_$p.log) known"
done
