#!/bin/sh
# usage: tools/seedbg.sh <patchdir> <property> [tier]  -- evaluates a seeded change in a scratch worktree (VERIF_REPO), leaving /repo alone
cd "$(dirname "$0")/.."; . ./env.sh
dir="$(cd "$1" && pwd)"; prop="$2"; tier="${3:-quick}"
wt=$(mktemp -d /tmp/seedwt.XXXXXX); rmdir $wt
git -C /repo worktree add -q --detach $wt HEAD || exit 9
git -C $wt apply "$dir/patch.diff" || { echo "patch does not apply"; git -C /repo worktree remove --force $wt; exit 9; }
[ -x bin/gosx ] || ./setup.sh >/dev/null 2>&1
t0=$(date +%s)
VERIF_REPO=$wt ./check.sh $prop $tier > $wt.log 2>&1; rc=$?
echo "SEED $dir $prop exit=$rc wall=$(( $(date +%s) - t0 ))s"
grep -E "^VIOLATION|^INCONCLUSIVE|^KNOWN|^OK" $wt.log | cut -c1-200 | head -5
grep -E "obligation=" $wt.log | awk '{print $1}' | sort | uniq -c | head
git -C /repo worktree remove --force $wt; rm -f $wt.log
exit 0
