#!/bin/sh
# usage: tools/mut.sh <file> <sed-expr> <prop> [tier]  -- ad-hoc mutation in a scratch worktree (VERIF_REPO), /repo untouched
cd "$(dirname "$0")/.."; . ./env.sh
wt=$(mktemp -d /tmp/mutwt.XXXXXX); rmdir $wt
git -C /repo worktree add -q --detach $wt HEAD || exit 9
sed -i "$2" $wt/$1
if git -C $wt diff --quiet; then echo "MUT: sed changed nothing"; git -C /repo worktree remove --force $wt; exit 9; fi
git -C $wt diff | grep '^[-+][^-+]' | head -6
(cd $wt && go build ./... ) || { echo "MUT: does not build"; git -C /repo worktree remove --force $wt; exit 9; }
VERIF_REPO=$wt ./check.sh $3 ${4:-quick} > $wt.log 2>&1; rc=$?
echo "MUT $3 exit=$rc"; grep -E "^VIOLATION|^INCONCLUSIVE|^OK" $wt.log | cut -c1-200 | head -4; grep -E "obligation=" $wt.log | awk '{print $1}' | sort | uniq -c | head -5
git -C /repo worktree remove --force $wt; rm -f $wt.log
