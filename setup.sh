#!/bin/sh
# Builds the framework offline from files on disk only.
set -e
cd "$(dirname "$0")"
. ./env.sh
mkdir -p bin evidence replays
(cd engine && go build -o ../bin/gosx .)
