package timer

import (
	"encoding/json"
	"fmt"
	"os"
	"testing"
	"time"
)

func TestVerifReplay(t *testing.T) {
	path := os.Getenv("VERIF_REPLAY")
	if path == "" {
		t.Skip("VERIF_REPLAY not set")
	}
	b, err := os.ReadFile(path)
	if err != nil {
		t.Fatal(err)
	}
	var vec vVector
	if err := json.Unmarshal(b, &vec); err != nil {
		t.Fatal(err)
	}
	vRun = vRunState{vec: &vec}
	fn := vEntry(vec.Entry)
	if fn == nil {
		t.Fatalf("no harness entry %s", vec.Entry)
	}
	pan := ""
	done := make(chan struct{})
	go func() {
		defer close(done)
		defer func() {
			if r := recover(); r != nil {
				if _, ok := r.(vAssumeFailed); !ok {
					pan = fmt.Sprint(r)
				}
			}
		}()
		fn()
	}()
	select {
	case <-done:
	case <-time.After(5 * time.Second):
		pan = "blocked forever (send on a full channel / deadlock)"
	}
	out, _ := json.Marshal(map[string]interface{}{
		"failed": vRun.failed, "known": []string{}, "covers": vRun.covers,
		"panic": pan, "tagerr": vRun.tagErr, "assume_ko": vRun.assumeKO,
	})
	fmt.Printf("REPLAY-RESULT %s\n", out)
}
