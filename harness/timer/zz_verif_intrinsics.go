package timer

// Harness intrinsics for package timer (same contract as the dbft ones: intercepted by the
// symbolic executor, ordinary bodies for native replay). Natively the clock is the machine's
// and observation really waits for the channel, so a replayed schedule takes real time:
// durations come from a 10 ms grid to make a violation visible above scheduling noise.

import "time"

type vInputVal struct {
	Tag string `json:"tag"`
	W   int    `json:"w"`
	V   uint64 `json:"v"`
}
type vVector struct {
	Entry  string         `json:"entry"`
	Pkg    string         `json:"pkg"`
	ID     string         `json:"id"`
	Params map[string]int `json:"params"`
	Inputs []vInputVal    `json:"inputs"`
}

type vRunState struct {
	vec      *vVector
	pos      int
	failed   []string
	covers   []string
	tagErr   string
	assumeKO bool
}

var vRun vRunState

type vAssumeFailed struct{}

func vNext(tag string) uint64 {
	for vRun.vec != nil && vRun.pos < len(vRun.vec.Inputs) {
		in := vRun.vec.Inputs[vRun.pos]
		vRun.pos++
		// clock readings and Stop results exist only on the symbolic side
		if in.Tag == "wallclock" || in.Tag == "timer.stop.result" {
			continue
		}
		if in.Tag != tag && vRun.tagErr == "" {
			vRun.tagErr = "input order mismatch: vector has " + in.Tag + ", harness asks " + tag
		}
		return in.V
	}
	vRun.tagErr = "input vector exhausted at " + tag
	return 0
}

func vU8(tag string) byte    { return byte(vNext(tag)) }
func vU32(tag string) uint32 { return uint32(vNext(tag)) }
func vAssume(c bool) {
	if !c {
		vRun.assumeKO = true
		panic(vAssumeFailed{})
	}
}
func vAssert(id string, c bool) {
	if !c {
		vRun.failed = append(vRun.failed, id)
	}
}
func vCover(id string) { vRun.covers = append(vRun.covers, id) }
func vParam(name string) int {
	if vRun.vec == nil {
		return 0
	}
	return vRun.vec.Params[name]
}

// vWall reads the clock the timer package itself uses.
func vWall() uint64 { return uint64(time.Now().UnixNano()) }

// vSleep lets at least d nanoseconds pass.
func vSleep(d uint64) { time.Sleep(time.Duration(d)) }

// vObserve waits for the channel (natively at most 400 ms): the instant the receive completed,
// whether it did, and the value received (ns).
func vObserve(c <-chan time.Time) (uint64, bool, uint64) {
	if c == nil {
		return 0, false, 0
	}
	select {
	case v := <-c:
		return uint64(time.Now().UnixNano()), true, uint64(v.UnixNano())
	case <-time.After(400 * time.Millisecond):
		return 0, false, 0
	}
}
