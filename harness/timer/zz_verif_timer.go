package timer

import "time"

// H_timer (C18): a sequence of up to five operations on the real Timer, chosen by the job
// parameters op1..op5: 1 = Reset(h, v, d) with d > 0, 2 = Reset(h, v, 0), 3 = Extend(x),
// 4 = let time pass. Durations are symbolic multiples (0..5) of 10 ms. After the sequence the
// channel C() is observed. Oracle (kept by the harness, independent of the Timer's fields):
// the instant t0 just before the latest Reset call, t1 just after the latest operation, the
// duration of that Reset plus all extensions since.
const vGrid = 10 * uint64(time.Millisecond)

var vDurTab = [6]time.Duration{0, 10 * time.Millisecond, 20 * time.Millisecond, 30 * time.Millisecond, 40 * time.Millisecond, 50 * time.Millisecond}

// vDur: a symbolic duration from the grid (a table lookup, so that no multiplication reaches the solver)
func vDur(tag string, min int) time.Duration {
	k := vU8(tag)
	vAssume(int(k) >= min && k <= 5)
	tab := vDurTab
	return tab[k]
}

func H_timer() {
	t := New()
	var resetT0 uint64 // clock reading just before the latest Reset
	var total time.Duration
	var h uint32
	var v byte
	resets := 0
	zero := false // the latest reset had duration zero and nothing extended it since
	for i := 1; i <= 5; i++ {
		var op int
		switch i {
		case 1:
			op = vParam("op1")
		case 2:
			op = vParam("op2")
		case 3:
			op = vParam("op3")
		case 4:
			op = vParam("op4")
		case 5:
			op = vParam("op5")
		}
		switch op {
		case 1, 2:
			h, v = vU32("height"), vU8("view")
			d := time.Duration(0)
			if op == 1 {
				d = vDur("reset.d", 1)
			}
			resetT0 = vWall()
			t.Reset(h, v, d)
			total = d
			zero = op == 2
			resets++
		case 3:
			if resets == 0 {
				continue // Extend before any Reset is outside the documented use
			}
			x := vDur("extend.d", 1)
			t.Extend(x)
			total += x
			zero = false
		case 4:
			vSleep(uint64(vDur("sleep.d", 1)))
		}
	}
	if resets == 0 {
		return
	}
	vCover("C18.sequence")
	// reports the latest epoch
	vAssert("C18.epoch", t.Height() == h && t.View() == v)
	t1 := vWall()
	at, ok, val := vObserve(t.C())
	// an armed timer always delivers
	vAssert("C18.delivers", ok)
	if ok {
		// never early: not before the latest reset instant + its duration + all extensions since
		vAssert("C18.never.early", at >= resetT0+uint64(total))
		// and not later than that deadline counted from the end of the last operation (plus, natively, scheduling tolerance)
		vAssert("C18.not.late", at <= t1+uint64(total)+30*uint64(time.Millisecond))
		if zero {
			vCover("C18.zero")
			// fires immediately for a zero duration, and what fires is THIS reset's expiry (no stale one)
			vAssert("C18.zero.immediate", at <= t1+30*uint64(time.Millisecond))
			vAssert("C18.zero.fresh", val >= resetT0 && val <= t1)
		}
	}
}
