package main

import "time"

// Harness intrinsics for package main of the simulation (intercepted by the symbolic executor;
// a counterexample of C17 is replayed by running the real simulation binary, see replay.go).
func vBool(tag string) bool    { return false }
func vU32(tag string) uint32   { return 0 }
func vAssume(c bool)           {}
func vAssert(id string, c bool) {}
func vCover(id string)         {}

func vSelectedOn(c <-chan time.Time) bool { return true }
