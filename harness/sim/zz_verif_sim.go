package main

// C17: the bundled simulation's event loop against the library's CONTRACT.
//
// The real simNode.Run loop, simNode.ProcessBlock, CurrentHeight and CurrentBlockHash are
// executed symbolically. The library instance behind n.d is replaced by a summary of what the
// step checks establish on the real library code (the executor redirects the four calls):
//   Start / Reset      : the instance takes its height from CurrentHeight()+1 and is undecided (C05.O3)
//   OnReceive/OnTimeout: an undecided instance may hand ONE block with index = its height to
//                        ProcessBlock and is decided from then on (C02.O3, C05.O1); a decided
//                        instance ignores every event until Reset (C05.O2)
// Which select case fires is a fresh choice per iteration (timer expiry, message, cancellation),
// whether an event completes the round is a fresh boolean: every interleaving up to the bound.
// Obligation: no event is ever delivered to a decided instance that was not re-initialised --
// by C05.O2 such an instance never acts again, i.e. the chain stops at that block; and the
// instance always works on the height after the application's own tip.

import (
	"context"
	"time"

	"github.com/nspcc-dev/dbft"
	"github.com/nspcc-dev/dbft/internal/crypto"
	"go.uber.org/zap"
)

type vGhost struct {
	height  uint32 // BlockIndex of the summarised instance
	decided bool
	blocks  int
	events  int
}

type vSimTimer struct {
	ch chan time.Time
	h  uint32
	v  byte
	g  *vGhost
}

func (t *vSimTimer) Now() time.Time                          { return time.Time{} }
// Like the bundled timer, every (re-)arming hands out a NEW channel: an event loop that keeps
// waiting on a channel it fetched earlier never sees the expiry.
func (t *vSimTimer) Reset(h uint32, v byte, d time.Duration) {
	t.h, t.v = h, v
	t.ch = make(chan time.Time, 1)
}
func (t *vSimTimer) Extend(d time.Duration) { t.ch = make(chan time.Time, 1) }
func (t *vSimTimer) Height() uint32                          { return t.h }
func (t *vSimTimer) View() byte                              { return t.v }
func (t *vSimTimer) C() <-chan time.Time                     { return t.ch }

type vSimBlock struct {
	idx uint32
	h   crypto.Uint256
}

func (b *vSimBlock) Hash() crypto.Uint256                                { return b.h }
func (b *vSimBlock) PrevHash() crypto.Uint256                            { return crypto.Uint256{} }
func (b *vSimBlock) MerkleRoot() crypto.Uint256                          { return crypto.Uint256{} }
func (b *vSimBlock) Index() uint32                                       { return b.idx }
func (b *vSimBlock) Signature() []byte                                   { return nil }
func (b *vSimBlock) Sign(key dbft.PrivateKey) error                      { return nil }
func (b *vSimBlock) Verify(key dbft.PublicKey, sign []byte) error        { return nil }
func (b *vSimBlock) Transactions() []dbft.Transaction[crypto.Uint256]    { return nil }
func (b *vSimBlock) SetTransactions([]dbft.Transaction[crypto.Uint256]) {}

type vCtx struct{ done chan struct{} }

func (c *vCtx) Deadline() (time.Time, bool) { return time.Time{}, false }
func (c *vCtx) Done() <-chan struct{}       { return c.done }
func (c *vCtx) Err() error                  { return nil }
func (c *vCtx) Value(key any) any           { return nil }

var _ context.Context = (*vCtx)(nil)

func vGhostOf(d *dbft.DBFT[crypto.Uint256]) *vGhost { return d.Config.Timer.(*vSimTimer).g }

// summaries (the executor redirects the library methods here)
func vSumStart(d *dbft.DBFT[crypto.Uint256], ts uint64) {
	g := vGhostOf(d)
	g.height = d.Config.CurrentHeight() + 1
	g.decided = false
	d.Config.Timer.Reset(g.height, 0, 0)
}

func vSumReset(d *dbft.DBFT[crypto.Uint256], ts uint64) { vSumStart(d, ts) }

func vSumEvent(d *dbft.DBFT[crypto.Uint256]) {
	g := vGhostOf(d)
	g.events++
	vCover("C17.event")
	// an event reaching a decided instance means the application never re-initialised it:
	// the library ignores everything from now on (C05.O2) and the chain stops here
	vAssert("C17.reinitialised", !g.decided)
	// the loop was waiting on the timer channel that is current for this instance (the library
	// re-arms its timer, and thereby replaces the channel, during most calls)
	vAssert("C17.timerchannel", vSelectedOn(d.Config.Timer.C()))
	vAssert("C17.height", g.height == d.Config.CurrentHeight()+1)
	if g.decided {
		return
	}
	// most events re-arm or extend the timer (changeTimer / extendTimer in the library)
	if vBool("event.rearms") {
		vCover("C17.rearm")
		d.Config.Timer.Reset(g.height, 0, 0)
	}
	if vBool("event.decides") {
		b := &vSimBlock{idx: g.height}
		if d.Config.ProcessBlock(b) == nil {
			g.decided = true
			g.blocks++
			vCover("C17.block")
		}
	}
}

func vSumOnReceive(d *dbft.DBFT[crypto.Uint256], msg dbft.ConsensusPayload[crypto.Uint256]) { vSumEvent(d) }
func vSumOnTimeout(d *dbft.DBFT[crypto.Uint256], h uint32, v byte)                          { vSumEvent(d) }

// H_sim: one real simNode with its real callbacks and the real Run loop; parameter selbound =
// number of loop iterations before cancellation.
func H_sim() {
	g := &vGhost{}
	tm := &vSimTimer{ch: make(chan time.Time, 1), g: g}
	n := &simNode{id: 0, messages: make(chan dbft.ConsensusPayload[crypto.Uint256], defaultChanSize), pool: newMemoryPool(), log: zap.NewNop()}
	n.height = vU32("ledger.height")
	vAssume(n.height < 0x7ffffff0)
	n.d = &dbft.DBFT[crypto.Uint256]{}
	n.d.Config.Timer = tm
	n.d.Config.Logger = zap.NewNop()
	n.d.Config.ProcessBlock = n.ProcessBlock
	n.d.Config.CurrentHeight = n.CurrentHeight
	n.d.Config.CurrentBlockHash = n.CurrentBlockHash
	h0 := n.height
	n.Run(&vCtx{done: make(chan struct{})})
	vCover("C17.loop.exit")
	// the ledger only grows, one block per decided round
	vAssert("C17.ledger", n.height == h0+uint32(g.blocks))
}
