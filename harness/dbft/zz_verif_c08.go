package dbft

import "time"

// H_c08 (C08): ONE real node in a fault-free synchronous round, every delivery order.
//
// The harness plays the other N-1 honest validators: it builds exactly the messages they send
// to this node in a fault-free round of the height (the primary's proposal, one response per
// other backup, one commit per other validator, plus one pre-commit each under anti-MEV) with
// symbolic contents (timestamp, nonce, transaction, ledger height/tip, clock) and delivers them
// in an order chosen by fresh boolean inputs: the executor forks on every choice, so every
// permutation is explored, each with all contents symbolic. Parameter early = k delivers the
// first k picks while the node is still at the previous height (they must go through the
// future-message cache) and then enters the height through Reset; dup = 1 lets one message be
// delivered twice. No timeout is delivered (the statement's premise), except the primary's own
// proposal timer after Reset. All application callbacks succeed (fault-free run).
//
// Parameters: n, my (own index), prim (primary of the height), amev (1: extension enabled from
// height 0), ntx (0/1 transactions in the proposal), early, dup.

func vC08deliver(d *DBFT[vhash], msgs []*vPayload, delivered []bool, dupLeft *int) bool {
	for j := range msgs {
		if delivered[j] {
			if *dupLeft > 0 && vBool("pick.dup") {
				*dupLeft--
				d.OnReceive(msgs[j])
				return true
			}
			continue
		}
		if vBool("pick") {
			delivered[j] = true
			d.OnReceive(msgs[j])
			return true
		}
	}
	return false
}

func H_c08() {
	n, my, prim := vParam("n"), vParam("my"), vParam("prim")
	amev := vParam("amev") != 0
	early := vParam("early")
	e := vNewEnv(n, my, amev, false)
	d := e.d
	if amev {
		e.amevH = 0
	} else {
		e.amevH = -1
	}
	e.height = vU32("ledgerheight")
	vAssume(e.height < 0x7ffffff0)
	e.tip = vhash(vU64("tip"))
	e.tpb = time.Duration(vI64("tpb"))
	vAssume(e.tpb > 0 && e.tpb <= 1<<40)
	e.clock = vU64("clock")
	vAssume(e.clock < 1<<62)
	H := e.height + 1 // the height of the round
	if early > 0 {
		H = e.height + 2 // the node starts one height below and enters H through Reset
	}
	vAssume(int(uint64(H)%uint64(n)) == prim)
	ts0 := vU64("start.ts")
	vAssume(ts0 < 1<<62)
	d.Start(ts0)
	nb0 := e.nBroadcast
	tipH := e.tip
	if early > 0 {
		tipH = vhash(vU64("tip.next")) // hash of the block that will be the tip when H is entered
	}

	// --- the proposal of the round
	var req *vPayload
	ntx := vParam("ntx")
	if my == prim {
		// primary: at Start it proposes by itself (early = 0 for this role)
		vAssume(early == 0)
		own := d.PreparationPayloads[my]
		vAssert("C08.primary.proposed", own != nil)
		if own == nil {
			return
		}
		req = own.(*vPayload)
	} else {
		req = &vPayload{typ: PrepareRequestType, height: H, view: 0, vidx: uint16(prim), ts: vU64("req.ts"), nonce: vU64("req.nonce")}
		req.txs = vSymTxs("req", ntx)
		for _, h := range req.txs {
			vAssume(vUF(kGetTx, uint64(h)) != 0) // every node holds the proposed transactions
		}
		vAssume(vUF(kVerifyPReq, uint64(req.Hash())) == 0)
	}
	reqHash := req.Hash()
	bh := vhash(vHash(kBlock, uint64(H), uint64(tipH), req.ts, req.nonce, vTxListHash(req.txs)))
	ph := vhash(vHash(kPreBlock, uint64(H), uint64(tipH), req.ts, req.nonce, vTxListHash(req.txs)))
	// fault-free: the application accepts the block everywhere
	vAssume(vUF(kVerifyBlock, uint64(bh)) != 0 && vUF(kVerifyPre, uint64(ph)) != 0)
	vAssume(vUF(kProcessBlock, uint64(bh), 1) == 0 && vUF(kProcessPre, uint64(ph), 1) == 0)
	vAssume(vUF(kSignErr, uint64(bh)) == 0 && vUF(kSetDataErr, uint64(ph)) == 0)

	// --- what the other validators send to this node in the round
	var msgs []*vPayload
	if my != prim {
		msgs = append(msgs, req)
	}
	for i := 0; i < n; i++ {
		if i == my {
			continue
		}
		if i != prim {
			r := &vPayload{typ: PrepareResponseType, height: H, view: 0, vidx: uint16(i), prep: reqHash}
			vAssume(vUF(kVerifyPResp, uint64(r.Hash())) == 0)
			msgs = append(msgs, r)
		}
		if amev {
			pc := &vPayload{typ: PreCommitType, height: H, view: 0, vidx: uint16(i), data: vDataToken(i, ph) | uint64(vU32("peer.datarnd"))<<32}
			vAssume(vUF(kVerifyPreC, uint64(pc.Hash())) == 0)
			msgs = append(msgs, pc)
		}
		c := &vPayload{typ: CommitType, height: H, view: 0, vidx: uint16(i), sig: vSigToken(i, bh) | uint64(vU32("peer.sigrnd"))<<32}
		vAssume(vUF(kVerifyCommit, uint64(c.Hash())) == 0)
		msgs = append(msgs, c)
	}
	delivered := make([]bool, len(msgs))
	dupLeft := vParam("dup")
	total := len(msgs) + dupLeft

	// --- early prefix, then the node enters the height
	for k := 0; k < early; k++ {
		if !vC08deliver(d, msgs, delivered, &dupLeft) {
			vAssume(false)
		}
	}
	if early > 0 {
		vAssert("C08.early.cached", e.nBroadcast == nb0 && d.BlockIndex == H-1)
		e.height = H - 1
		e.tip = tipH
		ts1 := vU64("reset.ts")
		vAssume(ts1 < 1<<62)
		d.Reset(ts1)
		vAssert("C08.entered", d.BlockIndex == H && d.ViewNumber == 0)
	}
	for k := early; k < total; k++ {
		if d.blockProcessed && vParam("stopdecided") != 0 {
			break
		}
		if !vC08deliver(d, msgs, delivered, &dupLeft) {
			vAssume(false)
		}
	}
	for j := range delivered {
		vAssume(delivered[j]) // every message of the round was delivered (dup: one of them twice, or not)
	}
	vCover("C08.round.delivered")

	// --- the round decided in view 0 on exactly the proposal, nobody complained
	vAssert("C08.decided", d.blockProcessed && e.nProcessBlockOK == 1 && e.nProcessBlock == 1)
	vAssert("C08.view0", d.ViewNumber == 0 && d.BlockIndex == H)
	nCV, nRR, nRM, nResp, nCommit, nReq := 0, 0, 0, 0, 0, 0
	for _, ev := range e.log {
		if ev.kind == evBroadcast && ev.h == H { // (at the previous height the node may have been the primary)
			switch ev.typ {
			case ChangeViewType:
				nCV++
			case RecoveryRequestType:
				nRR++
			case RecoveryMessageType:
				nRM++
			case PrepareResponseType:
				nResp++
			case CommitType:
				nCommit++
			case PrepareRequestType:
				nReq++
			}
		}
	}
	vAssert("C08.nocomplaints", nCV == 0 && nRR == 0)
	// (the node may decide on the others' commits before it has M preparations itself, so its own
	// response/commit are sent at most once, not necessarily once)
	if my == prim {
		vAssert("C08.own.messages", nReq == 1 && nResp == 0 && nCommit <= 1)
	} else {
		vAssert("C08.own.messages", nReq == 0 && nResp <= 1 && nCommit <= 1)
	}
	if d.block != nil {
		vAssert("C08.block", d.block.Hash() == bh)
	}
}
