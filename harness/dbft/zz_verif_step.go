package dbft

// One inductive step: symbolic Inv pre-state, ONE real API call with symbolic arguments and
// symbolic callback results, Inv and the step obligations afterwards (DESIGN §6).

type vSnap struct {
	height                             uint32
	view                               byte
	blockProcessed, preBlockProcessed  bool
	preps, commits, precommits, cvs    []ConsensusPayload[vhash]
	lastcvs                            []ConsensusPayload[vhash]
	ts, nonce                          uint64
	ntxh, ntx, nmissing                int
	header, block                      Block[vhash]
	preHeader, preBlock                PreBlock[vhash]
	myIndex                            int
	primary                            uint
	txsub                              bool
	lastBlockIndex                     uint32
	lastBlockView                      byte
	rttIdx                             int
	nBroadcast, nTimerReset, nTimerExt int
	nRequestTx, nSubscribe             int
	// whole-state fingerprint (C11)
	prevHash           vhash
	lbts               uint64
	lbtime, pstime     uint64
	rttAvg, tpb, mtpb  int64
	txh, miss          []vhash
	txheld             []bool
	seenOK             []bool
	seenH              []uint32
	seenV              []byte
	th                 uint32
	tv                 byte
	td                 int64
	armed              bool
	ncache             int
	nStopTx, nSign, nSetData, nNewBlock, nNewPreBlock int
}

func vCopyTab(t []ConsensusPayload[vhash]) []ConsensusPayload[vhash] {
	c := make([]ConsensusPayload[vhash], len(t))
	copy(c, t)
	return c
}

func vTakeSnap(e *vEnv) *vSnap {
	d := e.d
	return &vSnap{height: d.BlockIndex, view: d.ViewNumber, blockProcessed: d.blockProcessed, preBlockProcessed: d.preBlockProcessed,
		preps: vCopyTab(d.PreparationPayloads), commits: vCopyTab(d.CommitPayloads), precommits: vCopyTab(d.PreCommitPayloads),
		cvs: vCopyTab(d.ChangeViewPayloads), lastcvs: vCopyTab(d.LastChangeViewPayloads), ts: d.Timestamp, nonce: d.Nonce,
		ntxh: len(d.TransactionHashes), ntx: len(d.Transactions), nmissing: len(d.MissingTransactions),
		header: d.header, block: d.block, preHeader: d.preHeader, preBlock: d.preBlock, myIndex: d.MyIndex, primary: d.PrimaryIndex,
		txsub: d.txSubscriptionOn, lastBlockIndex: d.lastBlockIndex, lastBlockView: d.lastBlockView, rttIdx: d.rttEstimates.idx,
		nBroadcast: e.nBroadcast, nTimerReset: e.nTimerReset, nTimerExt: e.nTimerExtend, nRequestTx: e.nRequestTx, nSubscribe: e.nSubscribe,
		prevHash: d.PrevHash, lbts: d.lastBlockTimestamp, lbtime: vNs(d.lastBlockTime), pstime: vNs(d.prepareSentTime),
		rttAvg: int64(d.rttEstimates.avg), tpb: int64(d.timePerBlock), mtpb: int64(d.maxTimePerBlock),
		txh: append([]vhash(nil), d.TransactionHashes...), miss: append([]vhash(nil), d.MissingTransactions...), txheld: vHeld(d),
		seenOK: vSeenOK(d), seenH: vSeenH(d), seenV: vSeenV(d), th: e.th, tv: e.tv, td: int64(e.td), armed: e.armed, ncache: len(d.cache.mail),
		nStopTx: e.nStopTx, nSign: e.nSign, nSetData: e.nSetData, nNewBlock: e.nNewBlock, nNewPreBlock: e.nNewPreBlock}
}

func vHeld(d *DBFT[vhash]) []bool {
	r := make([]bool, len(d.TransactionHashes))
	for i, h := range d.TransactionHashes {
		_, r[i] = d.Transactions[h]
	}
	return r
}

func vSeenOK(d *DBFT[vhash]) []bool {
	r := make([]bool, len(d.LastSeenMessage))
	for i, hv := range d.LastSeenMessage {
		r[i] = hv != nil
	}
	return r
}

func vSeenH(d *DBFT[vhash]) []uint32 {
	r := make([]uint32, len(d.LastSeenMessage))
	for i, hv := range d.LastSeenMessage {
		if hv != nil {
			r[i] = hv.Height
		}
	}
	return r
}

func vSeenV(d *DBFT[vhash]) []byte {
	r := make([]byte, len(d.LastSeenMessage))
	for i, hv := range d.LastSeenMessage {
		if hv != nil {
			r[i] = hv.View
		}
	}
	return r
}

// vpSameRest: the part of the state vpUnchanged does not cover: ledger link, time references,
// transaction lists element by element, the timer model, the cache, and LastSeenMessage of
// every validator except `sender` (-1: all).
func vpSameRest(s *vSnap, e *vEnv, sender int) bool {
	d := e.d
	ok := s.prevHash == d.PrevHash && s.lbts == d.lastBlockTimestamp && s.lbtime == vNs(d.lastBlockTime) && s.pstime == vNs(d.prepareSentTime) &&
		s.rttAvg == int64(d.rttEstimates.avg) && s.tpb == int64(d.timePerBlock) && s.mtpb == int64(d.maxTimePerBlock) &&
		s.th == e.th && s.tv == e.tv && s.td == int64(e.td) && s.armed == e.armed && s.ncache == len(d.cache.mail) &&
		vpSameTxs(s.txh, d.TransactionHashes) && vpSameTxs(s.miss, d.MissingTransactions) && len(s.seenOK) == len(d.LastSeenMessage)
	if len(s.txh) == len(d.TransactionHashes) {
		for i, h := range d.TransactionHashes {
			if _, has := d.Transactions[h]; has != s.txheld[i] {
				ok = false
			}
		}
	}
	if len(s.seenOK) == len(d.LastSeenMessage) {
		for i, hv := range d.LastSeenMessage {
			if i != sender {
				if (hv != nil) != s.seenOK[i] {
					ok = false
				} else if hv != nil && (hv.Height != s.seenH[i] || hv.View != s.seenV[i]) {
					ok = false
				}
			}
		}
	}
	return ok
}

func vpNoCallbacks(s *vSnap, e *vEnv) bool {
	return vpNoEffects(s, e) && s.nStopTx == e.nStopTx && s.nSign == e.nSign && s.nSetData == e.nSetData && s.nNewBlock == e.nNewBlock &&
		s.nNewPreBlock == e.nNewPreBlock && e.nProcessBlock == 0 && e.nProcessPre == 0
}

func vpSameTab(a, b []ConsensusPayload[vhash]) bool {
	if len(a) != len(b) {
		return false
	}
	ok := true
	for i := range a {
		if a[i] != b[i] {
			ok = false
		}
	}
	return ok
}

// vpUnchanged: the consensus-relevant state is exactly what it was (LastSeenMessage and the
// cache are deliberately not part of it).
func vpUnchanged(s *vSnap, e *vEnv) bool {
	d := e.d
	return s.height == d.BlockIndex && s.view == d.ViewNumber && s.blockProcessed == d.blockProcessed && s.preBlockProcessed == d.preBlockProcessed &&
		vpSameTab(s.preps, d.PreparationPayloads) && vpSameTab(s.commits, d.CommitPayloads) && vpSameTab(s.precommits, d.PreCommitPayloads) &&
		vpSameTab(s.cvs, d.ChangeViewPayloads) && vpSameTab(s.lastcvs, d.LastChangeViewPayloads) &&
		s.ts == d.Timestamp && s.nonce == d.Nonce && s.ntxh == len(d.TransactionHashes) && s.ntx == len(d.Transactions) && s.nmissing == len(d.MissingTransactions) &&
		s.header == d.header && s.block == d.block && s.preHeader == d.preHeader && s.preBlock == d.preBlock &&
		s.myIndex == d.MyIndex && s.primary == d.PrimaryIndex && s.txsub == d.txSubscriptionOn &&
		s.lastBlockIndex == d.lastBlockIndex && s.lastBlockView == d.lastBlockView && s.rttIdx == d.rttEstimates.idx
}

func vpNoEffects(s *vSnap, e *vEnv) bool {
	return s.nBroadcast == e.nBroadcast && s.nTimerReset == e.nTimerReset && s.nTimerExt == e.nTimerExtend && s.nRequestTx == e.nRequestTx && s.nSubscribe == e.nSubscribe
}

func vSymRecovery(e *vEnv, h uint32) *vRecovery {
	r := &vRecovery{id: vU64("rec.id")}
	mk := func(tag string, t MessageType) *vPayload {
		p := vSymPayload(tag, t, h)
		// nobody can forge the receiver's own payloads (DESIGN §4); genuine own payloads
		// coming back are the re-delivery case of C11
		vAssume(int(p.vidx) != e.my || e.watchFlag)
		vSplitSender(p, vParam("rsplit"), e.n)
		if t == PrepareRequestType {
			p.txs = vSymTxs(tag, vParam("mntx"))
		}
		return p
	}
	if vParam("rreq") != 0 {
		r.prepReq = mk("rec.req", PrepareRequestType)
	}
	for i := 0; i < vParam("rresp"); i++ {
		r.prepResps = append(r.prepResps, mk("rec.resp", PrepareResponseType))
	}
	for i := 0; i < vParam("rcv"); i++ {
		r.chViews = append(r.chViews, mk("rec.cv", ChangeViewType))
	}
	for i := 0; i < vParam("rpc"); i++ {
		r.preCommits = append(r.preCommits, mk("rec.precommit", PreCommitType))
	}
	for i := 0; i < vParam("rc"); i++ {
		r.commits = append(r.commits, mk("rec.commit", CommitType))
	}
	return r
}

var vMsgTypes = [...]MessageType{ChangeViewType, PrepareRequestType, PrepareResponseType, CommitType, PreCommitType, RecoveryRequestType, RecoveryMessageType}

// H_step: parameters n, my, prim, amev, maxtpb, req, ntx, txmask, api (+ sizes for some apis).
func H_step() {
	b := vBoundsFromParams()
	e := vSymState(b)
	d := e.d
	api := vParam("api")
	e.api = api
	vAssume(vpInv(e, false))
	// optional narrowing of the pre-state (parameters; absent = no narrowing)
	if vParam("decided") == 1 {
		vAssume(d.blockProcessed)
	} else if vParam("decided") == 2 {
		vAssume(!d.blockProcessed)
	}
	if vParam("watch") == 1 {
		vAssume(e.watchFlag)
	} else if vParam("watch") == 2 {
		vAssume(!e.watchFlag)
	}
	if vParam("amevon") == 1 {
		vAssume(e.amevOn())
	} else if vParam("amevon") == 2 {
		vAssume(!e.amevOn())
	}

	// pre-state facts for event-time obligations
	e.preBlockProcessed, e.prePreBlockProcessed = d.blockProcessed, d.preBlockProcessed
	e.preView, e.preHeight = d.ViewNumber, d.BlockIndex
	e.preHasReq = d.PreparationPayloads[d.PrimaryIndex] != nil
	if d.MyIndex >= 0 {
		e.preOwnCommit, e.preOwnPreCommit, e.preOwnPrep = d.CommitPayloads[d.MyIndex], d.PreCommitPayloads[d.MyIndex], d.PreparationPayloads[d.MyIndex]
	}
	pre := vTakeSnap(e)
	e.preWatch = d.Context.WatchOnly()
	var msg *vPayload
	cls := vParam("cls")
	e.cls = cls

	switch {
	case api <= apiRecoveryMessage:
		msg = vSymPayload("msg", vMsgTypes[api], vU32("msg.height"))
		if api == apiPrepareRequest {
			msg.txs = vSymTxs("msg", vParam("mntx"))
		}
		if api == apiRecoveryMessage {
			msg.rec = vSymRecovery(e, msg.height)
		}
		// own payloads are not fed back and cannot be forged by others (DESIGN §4)
		// (a node restarted as watch-only under its old key does see its earlier payloads again)
		vAssume(int(msg.vidx) != d.MyIndex || e.watchFlag)
		vSplitSender(msg, vParam("split"), e.n)
		switch cls {
		case 1: // validator index outside the current list
			vAssume(int(msg.vidx) >= len(d.Validators))
		case 2: // past height
			vAssume(msg.height < d.BlockIndex)
		case 3: // current-view proposal not sent by the view's primary
			vAssume(msg.height == d.BlockIndex && msg.view == d.ViewNumber && uint(msg.vidx) != d.PrimaryIndex)
		case 4: // proposal / response for a lower view
			vAssume(msg.height == d.BlockIndex && msg.view < d.ViewNumber)
		case 5: // prepare response from the primary
			vAssume(msg.height == d.BlockIndex && msg.view == d.ViewNumber && uint(msg.vidx) == d.PrimaryIndex)
		case 6: // pre-commit while anti-MEV is off
			vAssume(!e.amevOn() && msg.height == d.BlockIndex && msg.view <= d.ViewNumber)
		case 9: // re-delivery of a payload that is stored in its slot
			var tab []ConsensusPayload[vhash]
			switch api {
			case apiChangeView:
				tab = d.ChangeViewPayloads
			case apiPrepareRequest, apiPrepareResponse:
				tab = d.PreparationPayloads
			case apiCommit:
				tab = d.CommitPayloads
			case apiPreCommit:
				tab = d.PreCommitPayloads
			}
			slot := vParam("slot")
			vAssume(slot != d.MyIndex && tab[slot] != nil)
			msg = tab[slot].(*vPayload)
			vAssume(msg.typ == vMsgTypes[api])
		}
		d.OnReceive(msg)
	case api == apiTimeout:
		th, tv := vU32("timeout.height"), vU8("timeout.view")
		if cls == 8 {
			vAssume(th != d.BlockIndex || tv != d.ViewNumber)
		}
		e.timeoutCurrent = th == d.BlockIndex && tv == d.ViewNumber
		if e.armed && th == e.th && tv == e.tv {
			e.armed = false // the expiry being delivered is consumed (C10.O3)
			pre.armed = false
		}
		d.OnTimeout(th, tv)
	case api == apiTransaction:
		txh := vhash(vU64("tx.hash"))
		if cls == 7 {
			vAssume(!vpInList(d.MissingTransactions, txh))
		}
		if vParam("lasttx") == 1 {
			// C12: the supplied transaction is a requested one
			vAssume(vpInList(d.MissingTransactions, txh))
		}
		e.preMissing = 0
		for _, h := range d.TransactionHashes {
			if _, has := d.Transactions[h]; !has && h != txh {
				e.preMissing++ // proposed transactions still absent after this one
			}
		}
		e.preAnswerOwed = d.IsBackup() && !d.Context.WatchOnly() && !d.NotAcceptingPayloadsDueToViewChanging() && d.RequestSentOrReceived() &&
			d.PreparationPayloads[d.MyIndex] == nil && !d.blockProcessed && d.CommitPayloads[d.MyIndex] == nil && d.PreCommitPayloads[d.MyIndex] == nil
		d.OnTransaction(&vTx{h: txh})
	case api == apiNewTransaction:
		d.OnNewTransaction()
	}
	vCover("step.returned")
	vpStepObligations(e, pre, msg)
	vAssert("INV", vpInv(e, true))
	vCover("step.end")
}

func vpStepObligations(e *vEnv, pre *vSnap, msg *vPayload) {
	d := e.d
	if e.want("C03") && d.MyIndex >= 0 && !d.Context.WatchOnly() {
		// O3 commit lock
		if e.preOwnCommit != nil || e.preOwnPreCommit != nil {
			vCover("C03.O3.committed")
			vAssert("C03.O3.view", d.ViewNumber == pre.view && d.BlockIndex == pre.height)
			vAssert("C03.O3.commitslot", e.preOwnCommit == nil || d.CommitPayloads[d.MyIndex] == e.preOwnCommit)
			vAssert("C03.O3.precommitslot", e.preOwnPreCommit == nil || d.PreCommitPayloads[d.MyIndex] == e.preOwnPreCommit)
		}
		// O5 the view never decreases within a height
		vAssert("C03.O5.monotone", d.BlockIndex != pre.height || d.ViewNumber >= pre.view)
		// O1 two preparations in one view: the log has at most one per (height, view)
		for i := range e.log {
			for j := i + 1; j < len(e.log); j++ {
				a, b := e.log[i], e.log[j]
				if a.kind == evBroadcast && b.kind == evBroadcast {
					if (a.typ == PrepareRequestType || a.typ == PrepareResponseType) && (b.typ == PrepareRequestType || b.typ == PrepareResponseType) {
						vAssert("C03.O1.twice", a.h != b.h || a.v != b.v || a.p == b.p)
					}
					if a.typ == CommitType && b.typ == CommitType {
						vAssert("C03.O2.twice", a.h != b.h || a.p == b.p)
					}
					if a.typ == PreCommitType && b.typ == PreCommitType {
						vAssert("C03.O2.pre.twice", a.h != b.h || a.p == b.p)
					}
				}
			}
		}
	}
	if e.want("C04") {
		// O3 a higher view is entered only on M change views for it or above
		if d.BlockIndex == pre.height && d.ViewNumber > pre.view {
			vCover("C04.O3.viewchanged")
			cnt := 0
			for _, m := range d.LastChangeViewPayloads {
				if m != nil && m.(*vPayload).newView >= d.ViewNumber && m.(*vPayload).height == d.BlockIndex {
					cnt++
				}
			}
			vAssert("C04.O3.evidence", cnt >= d.M())
		}
	}
	if (e.want("C05") || e.want("C08")) && msg != nil && msg.height > pre.height && int(msg.vidx) < e.n && e.api != apiRecoveryRequest && e.api != apiRecoveryMessage {
		// a payload for a later height is kept for that height, whether or not this height is
		// already decided (C05: "payloads received early for the new height are taken into
		// account"; C08: messages that reach a node before it has entered their height)
		vCover("C05.O5.future")
		ib := d.cache.mail[msg.height]
		ok := ib != nil
		if ok {
			var m ConsensusPayload[vhash]
			switch e.api {
			case apiPrepareRequest, apiPrepareResponse:
				m = ib.prepare[msg.vidx]
			case apiChangeView:
				m = ib.chViews[msg.vidx]
			case apiCommit:
				m = ib.commit[msg.vidx]
			case apiPreCommit:
				m = ib.preCommit[msg.vidx]
			}
			ok = m == ConsensusPayload[vhash](msg)
		}
		vAssert("C05.O5.futurecached", ok)
	}
	if e.want("C05") && e.quiet() {
		vCover("C05.O2.decided")
		vAssert("C05.O2.unchanged", vpUnchanged(pre, e))
		vAssert("C05.O2.noprocess", e.nProcessBlock == 0 && e.nProcessPre == 0)
		if e.api != apiRecoveryRequest {
			vAssert("C05.O2.silent", vpNoEffects(pre, e))
		}
	}
	if e.want("C11") && e.cls != 0 {
		sender := -1
		if msg != nil && e.cls != 1 && e.cls != 2 {
			sender = int(msg.vidx)
		}
		vCover("C11.class")
		kf2 := false
		if e.cls == 9 && e.api == apiChangeView {
			// KF-2 (DESIGN §7): an unsaturated change-view quorum is acted upon when a stored
			// request is delivered again
			kf2 = d.ViewNumber != pre.view || e.nBroadcast != pre.nBroadcast
			vKnown("KF-2", kf2)
		}
		if !kf2 {
			vAssert("C11.unchanged", vpUnchanged(pre, e))
			vAssert("C11.unchanged.rest", vpSameRest(pre, e, sender))
			if e.cls == 9 {
				// nothing but, possibly, a recovery message in reply
				vAssert("C11.O9.effects", pre.nTimerReset == e.nTimerReset && pre.nTimerExt == e.nTimerExtend && pre.nRequestTx == e.nRequestTx && pre.nSubscribe == e.nSubscribe &&
					e.nProcessBlock == 0 && e.nProcessPre == 0 && pre.nSign == e.nSign && pre.nSetData == e.nSetData)
				for _, ev := range e.log {
					if ev.kind == evBroadcast {
						vAssert("C11.O9.broadcast", ev.typ == RecoveryMessageType)
					}
				}
			} else {
				vAssert("C11.silent", vpNoCallbacks(pre, e))
			}
		}
	}
	if e.want("C12") && e.api == apiTransaction {
		if e.preAnswerOwed && vParam("lasttx") == 1 && e.preMissing == 0 {
			vCover("C12.O2.last")
			answered := false
			for _, ev := range e.log {
				if ev.kind == evBroadcast && (ev.typ == PrepareResponseType && ev.h == pre.height && ev.v == pre.view || ev.typ == ChangeViewType) {
					answered = true
				}
			}
			vAssert("C12.O2.answered", answered)
		}
	}
	if e.want("C09") {
		nRM, nCV, nRR, nPReq := 0, 0, 0, 0
		for _, ev := range e.log {
			if ev.kind == evBroadcast {
				switch ev.typ {
				case RecoveryMessageType:
					nRM++
				case ChangeViewType:
					nCV++
				case RecoveryRequestType:
					nRR++
				case PrepareRequestType:
					nPReq++
				}
			}
		}
		// L1: a timeout of the current epoch on an undecided validator never leaves it idle
		if e.api == apiTimeout && e.timeoutCurrent && !e.preWatch && !e.preBlockProcessed {
			vCover("C09.L1.timeout")
			vAssert("C09.L1.acts", nRM+nCV+nRR+nPReq > 0 || e.nSubscribe > pre.nSubscribe)
			vAssert("C09.L1.rearmed", e.nTimerReset > pre.nTimerReset || d.blockProcessed)
			if e.preOwnCommit != nil || e.preOwnPreCommit != nil {
				vAssert("C09.L1.resend", nRM > 0 && nCV == 0)
			}
		}
		// L2: exactly the F+1 validators following the sender (or any committed node) answer
		isReq := false
		if msg != nil && msg.height == pre.height && int(msg.vidx) < e.n {
			if e.api == apiRecoveryRequest && msg.view <= pre.view {
				isReq = true
			}
			if e.api == apiChangeView && msg.newView <= pre.view && !e.preBlockProcessed {
				isReq = true // a ChangeView for a view the node is already in counts as a recovery request
			}
		}
		if isReq {
			vCover("C09.L2.request")
			committed := e.preOwnCommit != nil || e.preOwnPreCommit != nil && e.amevOn()
			inRange := false
			if e.my >= 0 {
				k := (e.my - int(msg.vidx) - 1 + 2*e.n) % e.n
				inRange = k <= d.F()
			}
			should := !e.preWatch && (committed || inRange)
			vAssert("C09.L2.responders", (nRM > 0) == should)
			vAssert("C09.L2.once", nRM <= 1)
		}
	}
	if e.want("C09") && e.api == apiRecoveryMessage && msg != nil && msg.height == pre.height && int(msg.vidx) < e.n && !e.preBlockProcessed {
		// L3: a recovery message is acted upon at once, whatever view it was sent from (a node
		// that is behind catches up through it); it is never parked in the future-message cache
		if vParam("rreq") == 0 && vParam("rresp") == 0 && vParam("rpc") == 0 && vParam("rc") == 0 {
			// (embedded preparations/commits of a higher view are legitimately cached; change views never are)
			vAssert("C09.L3.notcached", len(d.cache.mail) == pre.ncache)
		}
		if msg.view > pre.view && e.preOwnCommit == nil && e.preOwnPreCommit == nil && msg.rec != nil {
			for _, m := range msg.rec.chViews {
				cv := m.(*vPayload)
				if cv.height == pre.height && int(cv.vidx) < e.n && cv.newView > pre.view && int(cv.vidx) != e.my {
					old := pre.cvs[cv.vidx]
					if old == nil || old.(*vPayload).newView <= cv.newView {
						vCover("C09.L3.changeview")
						vAssert("C09.L3.changeview", d.ChangeViewPayloads[cv.vidx] == m || d.LastChangeViewPayloads[cv.vidx] == m || d.ViewNumber > pre.view)
					}
				}
			}
		}
	}
	if e.want("C16") {
		nCV, nPReq, nAny := 0, 0, 0
		for _, ev := range e.log {
			if ev.kind == evBroadcast {
				nAny++
				if ev.typ == ChangeViewType {
					nCV++
				}
				if ev.typ == PrepareRequestType {
					nPReq++
				}
			}
		}
		if !e.maxCfg {
			// O4: the subscription callback is used only when the extension is configured
			vAssert("C16.O4.nosubscribe", e.nSubscribe == 0 && !d.txSubscriptionOn)
		} else if !e.preWatch && !e.preBlockProcessed && pre.view == 0 && e.preOwnCommit == nil && e.preOwnPreCommit == nil {
			expiry := e.api == apiTimeout && e.timeoutCurrent
			notify := e.api == apiNewTransaction && pre.txsub
			primaryIdle := e.my >= 0 && uint(e.my) == pre.primary && !e.preHasReq
			backup := e.my >= 0 && uint(e.my) != pre.primary
			if primaryIdle && expiry && !pre.txsub {
				if len(e.pool) == 0 {
					// O1: empty pool: no proposal yet, subscribe, wait for the rest of the maximum interval
					vCover("C16.O1.defer")
					vAssert("C16.O1.defer", nAny == 0 && e.nSubscribe == pre.nSubscribe+1 && d.txSubscriptionOn && e.armed && e.td == d.maxTimePerBlock-d.timePerBlock && e.nTimerReset == pre.nTimerReset+1)
					// nothing was proposed: the reference instant of the block interval must not move
					vAssert("C16.O1.defer.state", vNs(d.lastBlockTime) == pre.lbtime && d.lastBlockIndex == pre.lastBlockIndex && d.lastBlockView == pre.lastBlockView &&
						vNs(d.prepareSentTime) == pre.pstime && len(d.TransactionHashes) == pre.ntxh && d.PreparationPayloads[e.my] == nil)
				} else {
					vAssert("C16.O1.propose", nPReq == 1 && !d.txSubscriptionOn)
				}
			}
			if primaryIdle && (expiry && pre.txsub || notify) {
				// second expiry or a new-transaction notification: the proposal is made in this call
				vCover("C16.O1.forced")
				vAssert("C16.O1.forced", nPReq == 1 && !d.txSubscriptionOn)
			}
			if backup && expiry && !pre.txsub && len(e.pool) == 0 {
				// O2: an idle chain is no reason for a view change
				vCover("C16.O2.defer")
				vAssert("C16.O2.defer", nAny == 0 && e.nSubscribe == pre.nSubscribe+1 && d.txSubscriptionOn && e.armed && e.td == d.maxTimePerBlock<<1-d.timePerBlock<<1 && e.td >= 0)
				vAssert("C16.O2.defer.state", vNs(d.lastBlockTime) == pre.lbtime && d.lastBlockIndex == pre.lastBlockIndex && d.lastBlockView == pre.lastBlockView && d.ViewNumber == pre.view)
			}
			if backup && notify {
				vCover("C16.O2.notify")
				vAssert("C16.O2.notify", nAny == 0 && !d.txSubscriptionOn && e.armed && e.td == d.timePerBlock<<1 && d.ViewNumber == 0)
			}
			if e.api == apiNewTransaction && !pre.txsub {
				vAssert("C16.O2.ignored", nAny == 0 && vpUnchanged(pre, e) && vpNoEffects(pre, e))
			}
		}
	}
	if e.want("C10") && e.api == apiTimeout && e.timeoutCurrent && !e.preWatch && !e.preBlockProcessed {
		vCover("C10.O3.delivered")
		vAssert("C10.O3.rearmed", d.blockProcessed || e.armed && e.nTimerReset > pre.nTimerReset)
	}
	if e.want("C10") && !d.Context.WatchOnly() && !d.blockProcessed {
		vAssert("C10.O1.armed", e.armed && e.th == d.BlockIndex && e.tv == d.ViewNumber)
	}
}

// vSplitSender: case split of the sender index across jobs (parameter value 0 = unconstrained,
// k+1 = validator k, n+1 = any index outside the list); the union of the jobs is the whole domain.
func vSplitSender(p *vPayload, split, n int) {
	if split == 0 {
		return
	}
	if split <= n {
		vAssume(int(p.vidx) == split-1)
	} else {
		vAssume(int(p.vidx) >= n)
	}
}
