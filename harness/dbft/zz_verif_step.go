package dbft

// One inductive step: symbolic Inv pre-state, ONE real API call with symbolic arguments and
// symbolic callback results, Inv and the step obligations afterwards (DESIGN §6).

type vSnap struct {
	height                             uint32
	view                               byte
	blockProcessed, preBlockProcessed  bool
	preps, commits, precommits, cvs    []ConsensusPayload[vhash]
	lastcvs                            []ConsensusPayload[vhash]
	ts, nonce                          uint64
	ntxh, ntx, nmissing                int
	header, block                      Block[vhash]
	preHeader, preBlock                PreBlock[vhash]
	myIndex                            int
	primary                            uint
	txsub                              bool
	lastBlockIndex                     uint32
	lastBlockView                      byte
	rttIdx                             int
	nBroadcast, nTimerReset, nTimerExt int
	nRequestTx, nSubscribe             int
}

func vCopyTab(t []ConsensusPayload[vhash]) []ConsensusPayload[vhash] {
	c := make([]ConsensusPayload[vhash], len(t))
	copy(c, t)
	return c
}

func vTakeSnap(e *vEnv) *vSnap {
	d := e.d
	return &vSnap{height: d.BlockIndex, view: d.ViewNumber, blockProcessed: d.blockProcessed, preBlockProcessed: d.preBlockProcessed,
		preps: vCopyTab(d.PreparationPayloads), commits: vCopyTab(d.CommitPayloads), precommits: vCopyTab(d.PreCommitPayloads),
		cvs: vCopyTab(d.ChangeViewPayloads), lastcvs: vCopyTab(d.LastChangeViewPayloads), ts: d.Timestamp, nonce: d.Nonce,
		ntxh: len(d.TransactionHashes), ntx: len(d.Transactions), nmissing: len(d.MissingTransactions),
		header: d.header, block: d.block, preHeader: d.preHeader, preBlock: d.preBlock, myIndex: d.MyIndex, primary: d.PrimaryIndex,
		txsub: d.txSubscriptionOn, lastBlockIndex: d.lastBlockIndex, lastBlockView: d.lastBlockView, rttIdx: d.rttEstimates.idx,
		nBroadcast: e.nBroadcast, nTimerReset: e.nTimerReset, nTimerExt: e.nTimerExtend, nRequestTx: e.nRequestTx, nSubscribe: e.nSubscribe}
}

func vpSameTab(a, b []ConsensusPayload[vhash]) bool {
	if len(a) != len(b) {
		return false
	}
	ok := true
	for i := range a {
		if a[i] != b[i] {
			ok = false
		}
	}
	return ok
}

// vpUnchanged: the consensus-relevant state is exactly what it was (LastSeenMessage and the
// cache are deliberately not part of it).
func vpUnchanged(s *vSnap, e *vEnv) bool {
	d := e.d
	return s.height == d.BlockIndex && s.view == d.ViewNumber && s.blockProcessed == d.blockProcessed && s.preBlockProcessed == d.preBlockProcessed &&
		vpSameTab(s.preps, d.PreparationPayloads) && vpSameTab(s.commits, d.CommitPayloads) && vpSameTab(s.precommits, d.PreCommitPayloads) &&
		vpSameTab(s.cvs, d.ChangeViewPayloads) && vpSameTab(s.lastcvs, d.LastChangeViewPayloads) &&
		s.ts == d.Timestamp && s.nonce == d.Nonce && s.ntxh == len(d.TransactionHashes) && s.ntx == len(d.Transactions) && s.nmissing == len(d.MissingTransactions) &&
		s.header == d.header && s.block == d.block && s.preHeader == d.preHeader && s.preBlock == d.preBlock &&
		s.myIndex == d.MyIndex && s.primary == d.PrimaryIndex && s.txsub == d.txSubscriptionOn &&
		s.lastBlockIndex == d.lastBlockIndex && s.lastBlockView == d.lastBlockView && s.rttIdx == d.rttEstimates.idx
}

func vpNoEffects(s *vSnap, e *vEnv) bool {
	return s.nBroadcast == e.nBroadcast && s.nTimerReset == e.nTimerReset && s.nTimerExt == e.nTimerExtend && s.nRequestTx == e.nRequestTx && s.nSubscribe == e.nSubscribe
}

func vSymRecovery(e *vEnv, h uint32) *vRecovery {
	r := &vRecovery{id: vU64("rec.id")}
	mk := func(tag string, t MessageType) *vPayload {
		p := vSymPayload(tag, t, h)
		// nobody can forge the receiver's own payloads (DESIGN §4); genuine own payloads
		// coming back are the re-delivery case of C11
		vAssume(int(p.vidx) != e.my)
		if t == PrepareRequestType {
			p.txs = vSymTxs(tag, vParam("mntx"))
		}
		return p
	}
	if vParam("rreq") != 0 {
		r.prepReq = mk("rec.req", PrepareRequestType)
	}
	for i := 0; i < vParam("rresp"); i++ {
		r.prepResps = append(r.prepResps, mk("rec.resp", PrepareResponseType))
	}
	for i := 0; i < vParam("rcv"); i++ {
		r.chViews = append(r.chViews, mk("rec.cv", ChangeViewType))
	}
	for i := 0; i < vParam("rpc"); i++ {
		r.preCommits = append(r.preCommits, mk("rec.precommit", PreCommitType))
	}
	for i := 0; i < vParam("rc"); i++ {
		r.commits = append(r.commits, mk("rec.commit", CommitType))
	}
	return r
}

var vMsgTypes = [...]MessageType{ChangeViewType, PrepareRequestType, PrepareResponseType, CommitType, PreCommitType, RecoveryRequestType, RecoveryMessageType}

// H_step: parameters n, my, prim, amev, maxtpb, req, ntx, txmask, api (+ sizes for some apis).
func H_step() {
	b := vBoundsFromParams()
	e := vSymState(b)
	d := e.d
	api := vParam("api")
	e.api = api
	vAssume(vpInv(e, false))
	// optional narrowing of the pre-state (parameters; absent = no narrowing)
	if vParam("decided") == 1 {
		vAssume(d.blockProcessed)
	} else if vParam("decided") == 2 {
		vAssume(!d.blockProcessed)
	}
	if vParam("watch") == 1 {
		vAssume(e.watchFlag)
	} else if vParam("watch") == 2 {
		vAssume(!e.watchFlag)
	}
	if vParam("amevon") == 1 {
		vAssume(d.isAntiMEVExtensionEnabled())
	} else if vParam("amevon") == 2 {
		vAssume(!d.isAntiMEVExtensionEnabled())
	}

	// pre-state facts for event-time obligations
	e.preBlockProcessed, e.prePreBlockProcessed = d.blockProcessed, d.preBlockProcessed
	e.preView, e.preHeight = d.ViewNumber, d.BlockIndex
	e.preHasReq = d.PreparationPayloads[d.PrimaryIndex] != nil
	if d.MyIndex >= 0 {
		e.preOwnCommit, e.preOwnPreCommit, e.preOwnPrep = d.CommitPayloads[d.MyIndex], d.PreCommitPayloads[d.MyIndex], d.PreparationPayloads[d.MyIndex]
	}
	pre := vTakeSnap(e)
	var msg *vPayload

	switch {
	case api <= apiRecoveryMessage:
		msg = vSymPayload("msg", vMsgTypes[api], vU32("msg.height"))
		if api == apiPrepareRequest {
			msg.txs = vSymTxs("msg", vParam("mntx"))
		}
		if api == apiRecoveryMessage {
			msg.rec = vSymRecovery(e, msg.height)
		}
		// own payloads are not fed back and cannot be forged by others (DESIGN §4)
		vAssume(int(msg.vidx) != d.MyIndex)
		d.OnReceive(msg)
	case api == apiTimeout:
		d.OnTimeout(vU32("timeout.height"), vU8("timeout.view"))
	case api == apiTransaction:
		d.OnTransaction(&vTx{h: vhash(vU64("tx.hash"))})
	case api == apiNewTransaction:
		d.OnNewTransaction()
	}
	vCover("step.returned")
	vpStepObligations(e, pre, msg)
	vAssert("INV", vpInv(e, true))
	vCover("step.end")
}

func vpStepObligations(e *vEnv, pre *vSnap, msg *vPayload) {
	d := e.d
	if e.want("C03") && d.MyIndex >= 0 {
		// O3 commit lock
		if e.preOwnCommit != nil || e.preOwnPreCommit != nil {
			vCover("C03.O3.committed")
			vAssert("C03.O3.view", d.ViewNumber == pre.view && d.BlockIndex == pre.height)
			vAssert("C03.O3.commitslot", e.preOwnCommit == nil || d.CommitPayloads[d.MyIndex] == e.preOwnCommit)
			vAssert("C03.O3.precommitslot", e.preOwnPreCommit == nil || d.PreCommitPayloads[d.MyIndex] == e.preOwnPreCommit)
		}
		// O5 the view never decreases within a height
		vAssert("C03.O5.monotone", d.BlockIndex != pre.height || d.ViewNumber >= pre.view)
		// O1 two preparations in one view: the log has at most one per (height, view)
		for i := range e.log {
			for j := i + 1; j < len(e.log); j++ {
				a, b := e.log[i], e.log[j]
				if a.kind == evBroadcast && b.kind == evBroadcast {
					if (a.typ == PrepareRequestType || a.typ == PrepareResponseType) && (b.typ == PrepareRequestType || b.typ == PrepareResponseType) {
						vAssert("C03.O1.twice", a.h != b.h || a.v != b.v || a.p == b.p)
					}
					if a.typ == CommitType && b.typ == CommitType {
						vAssert("C03.O2.twice", a.h != b.h || a.p == b.p)
					}
					if a.typ == PreCommitType && b.typ == PreCommitType {
						vAssert("C03.O2.pre.twice", a.h != b.h || a.p == b.p)
					}
				}
			}
		}
	}
	if e.want("C04") {
		// O3 a higher view is entered only on M change views for it or above
		if d.BlockIndex == pre.height && d.ViewNumber > pre.view {
			vCover("C04.O3.viewchanged")
			cnt := 0
			for _, m := range d.LastChangeViewPayloads {
				if m != nil && m.(*vPayload).newView >= d.ViewNumber && m.(*vPayload).height == d.BlockIndex {
					cnt++
				}
			}
			vAssert("C04.O3.evidence", cnt >= d.M())
		}
	}
	if e.want("C05") && e.quiet() {
		vCover("C05.O2.decided")
		vAssert("C05.O2.unchanged", vpUnchanged(pre, e))
		vAssert("C05.O2.noprocess", e.nProcessBlock == 0 && e.nProcessPre == 0)
		if e.api != apiRecoveryRequest {
			vAssert("C05.O2.silent", vpNoEffects(pre, e))
		}
	}
	if e.want("C10") && !d.Context.WatchOnly() && !d.blockProcessed {
		vAssert("C10.O1.armed", e.armed && e.th == d.BlockIndex && e.tv == d.ViewNumber)
	}
}
