package dbft

import "time"

// H_reset (C05.O3-O5): Reset from an arbitrary Inv state holding a symbolic future-message
// cache, or Start on a fresh instance. The ledger facts the callbacks report afterwards are new
// symbolic values: height (any jump >= 0), tip hash, validator count n2 (concrete per job), own
// index my2, block time. Parameters: those of H_step plus n2, my2, start, ncache/ctype0/ctype1.

func vpInTab(tab []ConsensusPayload[vhash], p *vPayload) bool {
	found := false
	for _, m := range tab {
		if m != nil && m.(*vPayload) == p {
			found = true
		}
	}
	return found
}

// vpOnlyFrom: every stored payload is one of the cached payloads or was created by this node
// in this call (own index).
func vpOnlyFrom(tab []ConsensusPayload[vhash], cached []*vPayload, my int) bool {
	ok := true
	for _, m := range tab {
		if m != nil {
			p := m.(*vPayload)
			if int(p.vidx) != my {
				hit := false
				for _, c := range cached {
					if c == p {
						hit = true
					}
				}
				if !hit {
					ok = false
				}
			}
		}
	}
	return ok
}

// vpCacheClean (C05.O4, Inv 15): no inbox below the node's height; payloads cached for the
// node's own height belong to a higher view.
func vpCacheClean(d *DBFT[vhash]) bool {
	ok := true
	for h, ib := range d.cache.mail {
		if h < d.BlockIndex {
			ok = false
		}
		if h == d.BlockIndex {
			for _, m := range ib.prepare {
				if m.ViewNumber() <= d.ViewNumber {
					ok = false
				}
			}
			for _, m := range ib.preCommit {
				if m.ViewNumber() <= d.ViewNumber {
					ok = false
				}
			}
			for _, m := range ib.commit {
				if m.ViewNumber() <= d.ViewNumber {
					ok = false
				}
			}
			if len(ib.chViews) != 0 {
				ok = false
			}
		}
	}
	return ok
}

func H_reset() {
	b := vBoundsFromParams()
	start := vParam("start") == 1
	var e *vEnv
	if start {
		e = vNewEnv(b.n, b.my, b.amevCfg, b.maxCfg)
		e.watchFlag = vBool("watchflag")
		e.clock = vU64("clock")
		vAssume(e.clock < 1<<62)
		if b.amevCfg {
			e.amevH = int64(vU32("amevheight"))
			e.d.Config.AntiMEVExtensionEnablingHeight = e.amevH
			e.d.Context.Config.AntiMEVExtensionEnablingHeight = e.amevH
		} else {
			e.amevH = -1
		}
		e.api = apiStart
		vSymTsInc(e)
		np := vParam("npool")
		for i := 0; i < np; i++ {
			e.pool = append(e.pool, &vTx{h: vhash(vU64("pool.tx"))})
		}
		for i := 0; i < np; i++ {
			for j := i + 1; j < np; j++ {
				vAssume(e.pool[i].Hash() != e.pool[j].Hash())
			}
		}
	} else {
		e = vSymState(b)
		vAssume(vpInv(e, false))
		e.api = apiReset
	}
	d := e.d

	// what the application reports from now on
	n2, my2 := vParam("n2"), vParam("my2")
	nh := vU32("new.height")
	vAssume(nh < 0xfffffff0)
	if !start {
		vAssume(nh >= e.height) // the ledger does not go back
	}
	e.height = nh
	e.tip = vhash(vU64("new.tip"))
	e.tpb = time.Duration(vI64("new.tpb"))
	vAssume(e.tpb > 0 && e.tpb <= 1<<40)
	if b.maxCfg {
		e.maxTpb = time.Duration(vI64("new.maxtpb"))
		vAssume(e.maxTpb >= e.tpb && e.maxTpb <= 1<<41)
	}
	e.keys = make([]PublicKey, n2)
	for i := 0; i < n2; i++ {
		e.keys[i] = &vKey{idx: i}
	}
	e.n, e.my = n2, my2
	if vParam("prim2") != 0 || vParam("prim2set") != 0 {
		vAssume(int((uint64(nh)+1)%uint64(n2)) == vParam("prim2"))
	}
	for i, c := range e.cached {
		vAssume(int(c.vidx) != my2 || e.watchFlag) // nobody forges the node's own payloads
		if vParam("chit") == 1 {
			vAssume(c.height == nh+1) // cached for exactly the height being entered
		}
		if vParam("cfix") == 1 {
			// distinct senders: the cached payloads can form a quorum (nested view change at entry)
			k := i
			if my2 >= 0 && k >= my2 {
				k++
			}
			vAssume(int(c.vidx) == k)
		}
	}
	ts := vU64("reset.ts")
	vAssume(ts < 1<<62)
	e.preBlockProcessed, e.prePreBlockProcessed = false, false
	e.preHasReq = false
	e.preHeight, e.preView = nh+1, 0
	e.preOwnCommit, e.preOwnPreCommit, e.preOwnPrep = nil, nil, nil

	if start {
		d.Start(ts)
	} else {
		d.Reset(ts)
	}
	vCover("C05.reset.returned")

	vAssert("C05.O3.height", d.BlockIndex == nh+1 && d.PrevHash == e.tip)
	vAssert("C05.O3.validators", len(d.Validators) == n2 && d.MyIndex == my2 && len(d.PreparationPayloads) == n2 && len(d.CommitPayloads) == n2 &&
		len(d.PreCommitPayloads) == n2 && len(d.ChangeViewPayloads) == n2 && len(d.LastChangeViewPayloads) == n2 && len(d.LastSeenMessage) == n2)
	vAssert("C05.O3.timing", d.timePerBlock == e.tpb && d.lastBlockTimestamp == ts && (!b.maxCfg || d.maxTimePerBlock == e.maxTpb))
	if d.ViewNumber != 0 {
		cnt := 0
		for _, m := range d.LastChangeViewPayloads {
			if m != nil && m.(*vPayload).newView >= d.ViewNumber {
				cnt++
			}
		}
		vAssert("C05.O3.view", cnt >= d.M())
	}
	vAssert("C05.O3.flags", (!d.blockProcessed || e.nProcessBlockOK > 0) && (!d.preBlockProcessed || e.nProcessPreOK > 0))
	vAssert("C05.O3.retained", vpOnlyFrom(d.PreparationPayloads, e.cached, my2) && vpOnlyFrom(d.CommitPayloads, e.cached, my2) &&
		vpOnlyFrom(d.PreCommitPayloads, e.cached, my2) && vpOnlyFrom(d.ChangeViewPayloads, e.cached, my2) && vpOnlyFrom(d.LastChangeViewPayloads, e.cached, my2))
	if vpProposal(d) == nil {
		vAssert("C05.O3.cleared", len(d.TransactionHashes) == 0 && len(d.Transactions) == 0 && len(d.MissingTransactions) == 0 &&
			d.header == nil && d.block == nil && d.preHeader == nil && d.preBlock == nil)
	}
	vAssert("C05.O4.cache", vpCacheClean(d))
	if !d.Context.WatchOnly() && !d.blockProcessed {
		vAssert("C05.O3.timer", e.armed && e.th == d.BlockIndex && e.tv == d.ViewNumber)
		if e.want("C10") {
			vAssert("C10.O1.armed", e.armed && e.th == d.BlockIndex && e.tv == d.ViewNumber)
		}
	}
	if d.ViewNumber > 0 {
		vCover("C05.reset.viewchanged")
	}
	// the transaction subscription of the previous height does not survive
	vAssert("C05.O3.subscription", !d.txSubscriptionOn || e.nSubscribe > 0)
	if e.want("C16") {
		vCover("C16.reset")
		vAssert("C16.reset.subscription", !d.txSubscriptionOn || e.nSubscribe > 0)
		if !e.maxCfg {
			vAssert("C16.O4.nosubscribe", e.nSubscribe == 0 && !d.txSubscriptionOn)
		}
	}
	// O5: admissible cached payloads of the entered height are taken into account
	for _, c := range e.cached {
		if c.height == d.BlockIndex && int(c.vidx) < n2 && !d.blockProcessed && (my2 < 0 || d.CommitPayloads[my2] == nil && d.PreCommitPayloads[my2] == nil) {
			switch c.typ {
			case CommitType:
				if c.view == d.ViewNumber && vUF(kVerifyCommit, uint64(c.Hash())) == 0 && vpProposal(d) == nil {
					vCover("C05.O5.cached")
					vAssert("C05.O5.commit", d.CommitPayloads[c.vidx] == ConsensusPayload[vhash](c))
				}
			case ChangeViewType:
				if c.newView > d.ViewNumber {
					// stored as a pending request, or already used as evidence for the view entered
					// during the replay (reset moves the requests to LastChangeViewPayloads)
					vAssert("C05.O5.changeview", d.ChangeViewPayloads[c.vidx] == ConsensusPayload[vhash](c) || d.LastChangeViewPayloads[c.vidx] == ConsensusPayload[vhash](c))
				}
			case PrepareResponseType:
				if c.view == d.ViewNumber && uint(c.vidx) != d.PrimaryIndex && vUF(kVerifyPResp, uint64(c.Hash())) == 0 && vpProposal(d) == nil &&
					(my2 < 0 || d.ChangeViewPayloads[my2] == nil) {
					vAssert("C05.O5.response", d.PreparationPayloads[c.vidx] == ConsensusPayload[vhash](c))
				}
			case PreCommitType:
				if c.view == d.ViewNumber && e.amevOn() && vUF(kVerifyPreC, uint64(c.Hash())) == 0 && vpProposal(d) == nil {
					vAssert("C05.O5.precommit", d.PreCommitPayloads[c.vidx] == ConsensusPayload[vhash](c))
				}
			}
		}
	}
	vAssert("INV", vpInv(e, true))
	vCover("C05.reset.end")
}
