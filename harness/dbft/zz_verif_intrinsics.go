package dbft

// Harness intrinsics. The symbolic executor (/verif/engine) intercepts these functions by
// name; the bodies below are what runs natively when a solver model is replayed against the
// compiled code (go test -overlay): inputs come from the replay vector in creation order,
// uninterpreted functions from the model's tables.

import "time"

type vInputVal struct {
	Tag string `json:"tag"`
	W   int    `json:"w"`
	V   uint64 `json:"v"`
}
type vUFVal struct {
	Name string   `json:"name"`
	Args []uint64 `json:"args"`
	V    uint64   `json:"v"`
}
type vVector struct {
	Entry  string         `json:"entry"`
	Pkg    string         `json:"pkg"`
	ID     string         `json:"id"`
	Params map[string]int `json:"params"`
	Inputs []vInputVal    `json:"inputs"`
	UFs    []vUFVal       `json:"ufs"`
}

type vRunState struct {
	vec      *vVector
	pos      int
	fresh    uint64
	extra    map[string]uint64
	failed   []string
	known    []string
	covers   []string
	tagErr   string
	assumeKO bool
}

var vRun vRunState

type vAssumeFailed struct{}

func vNext(tag string) uint64 {
	if vRun.vec == nil || vRun.pos >= len(vRun.vec.Inputs) {
		vRun.tagErr = "input vector exhausted at " + tag
		return 0
	}
	// readings of the machine's wall clock exist only on the symbolic side
	for vRun.vec.Inputs[vRun.pos].Tag == "wallclock" && tag != "wallclock" && vRun.pos+1 < len(vRun.vec.Inputs) {
		vRun.pos++
	}
	in := vRun.vec.Inputs[vRun.pos]
	vRun.pos++
	if in.Tag != tag && vRun.tagErr == "" {
		vRun.tagErr = "input order mismatch: vector has " + in.Tag + ", harness asks " + tag
	}
	return in.V
}

func vBool(tag string) bool   { return vNext(tag) != 0 }
func vU8(tag string) byte     { return byte(vNext(tag)) }
func vU16(tag string) uint16  { return uint16(vNext(tag)) }
func vU32(tag string) uint32  { return uint32(vNext(tag)) }
func vU64(tag string) uint64  { return vNext(tag) }
func vI64(tag string) int64   { return int64(vNext(tag)) }
func vIsSymbolic() bool       { return false }
func vNote(s string)          {}
func vCut()                   {}
func vWant(prefix string) bool { return true }

func vAssume(c bool) {
	if !c {
		vRun.assumeKO = true
		panic(vAssumeFailed{})
	}
}

func vAssert(id string, c bool) {
	if !c {
		vRun.failed = append(vRun.failed, id)
	}
}

// vCheck is vAssert without assuming the condition afterwards.
func vCheck(id string, c bool) { vAssert(id, c) }

func vKnown(id string, c bool) {
	if c {
		vRun.known = append(vRun.known, id)
	}
}

// vSubFail names the failing conjunct of a combined assertion (native replay only).
func vSubFail(id string) { vRun.failed = append(vRun.failed, id) }

func vCover(id string) { vRun.covers = append(vRun.covers, id) }

func vParam(name string) int {
	if vRun.vec == nil {
		return 0
	}
	return vRun.vec.Params[name]
}

func vUFName(prefix string, kind uint64, n int) string {
	return prefix + vItoa(kind) + "_" + vItoa(uint64(n))
}

func vItoa(u uint64) string {
	if u == 0 {
		return "0"
	}
	var b [20]byte
	i := len(b)
	for u > 0 {
		i--
		b[i] = byte('0' + u%10)
		u /= 10
	}
	return string(b[i:])
}

func vLookupUF(name string, args []uint64, injective bool) uint64 {
	if vRun.vec != nil {
		for _, u := range vRun.vec.UFs {
			if u.Name == name && len(u.Args) == len(args) {
				same := true
				for i := range args {
					if u.Args[i] != args[i] {
						same = false
						break
					}
				}
				if same {
					return u.V
				}
			}
		}
	}
	k := name
	for _, a := range args {
		k += "," + vItoa(a)
	}
	if vRun.extra == nil {
		vRun.extra = map[string]uint64{}
	}
	if v, ok := vRun.extra[k]; ok {
		return v
	}
	var v uint64
	if injective {
		vRun.fresh++
		v = 0xF0000000 + vRun.fresh
	}
	vRun.extra[k] = v
	return v
}

// vHash is an injective uninterpreted function (32-bit results): the Hash interface's
// documented contract ("hashes of two different payloads/blocks/transactions are different").
func vHash(kind uint64, parts ...uint64) uint64 {
	return vLookupUF(vUFName("vH", kind, len(parts)), parts, true)
}

// vUF is a plain uninterpreted function: an arbitrary but deterministic application callback.
func vUF(kind uint64, parts ...uint64) uint64 {
	return vLookupUF(vUFName("vF", kind, len(parts)), parts, false)
}

func vBytesOf(x uint64) []byte {
	b := make([]byte, 8)
	for i := 0; i < 8; i++ {
		b[i] = byte(x >> (8 * uint(i)))
	}
	return b
}

func vU64Of(b []byte) uint64 {
	if len(b) != 8 {
		return ^uint64(0)
	}
	var x uint64
	for i := 0; i < 8; i++ {
		x |= uint64(b[i]) << (8 * uint(i))
	}
	return x
}

func vMaybe(tag string, p ConsensusPayload[vhash]) ConsensusPayload[vhash] {
	if vBool(tag) {
		return p
	}
	return nil
}

func vMaybeHV(tag string, p *HeightView) *HeightView {
	if vBool(tag) {
		return p
	}
	return nil
}

func vMaybeBlock(tag string, p Block[vhash]) Block[vhash] {
	if vBool(tag) {
		return p
	}
	return nil
}

func vMaybePre(tag string, p PreBlock[vhash]) PreBlock[vhash] {
	if vBool(tag) {
		return p
	}
	return nil
}

func vTime(ns uint64) time.Time { return time.Unix(0, int64(ns)) }

// vTimeZ: the zero Time if zero, else the instant ns.
func vTimeZ(zero bool, ns uint64) time.Time {
	if zero {
		return time.Time{}
	}
	return time.Unix(0, int64(ns))
}
func vZeroTime() time.Time      { return time.Time{} }

// vNs: nanoseconds of an instant, all-ones for the zero Time.
func vNs(t time.Time) uint64 {
	if t.IsZero() {
		return ^uint64(0)
	}
	return uint64(t.UnixNano())
}

// vSymLen: a validator list of length n whose elements are never touched.
func vSymLen(n int) []PublicKey { return make([]PublicKey, n) }

type vhash uint64

func (h vhash) String() string { return "" }
