package dbft

// Event-time obligations (checked inside the callbacks, i.e. "at that instant") and helper
// predicates. Functions named vp* are pure predicates: the executor evaluates both arms of
// their branches and joins them into one term.

func vpHasAllTx(d *DBFT[vhash]) bool {
	ok := true
	for _, h := range d.TransactionHashes {
		if _, has := d.Transactions[h]; !has {
			ok = false
		}
	}
	return ok
}

// vpProposal: the stored proposal of the current view (nil if unknown).
func vpProposal(d *DBFT[vhash]) *vPayload {
	m := d.PreparationPayloads[d.PrimaryIndex]
	if m == nil {
		return nil
	}
	return m.(*vPayload)
}

func vpBlockHashFromCtx(d *DBFT[vhash]) vhash {
	return vhash(vHash(kBlock, uint64(d.BlockIndex), uint64(d.PrevHash), d.Timestamp, d.Nonce, vTxListHash(d.TransactionHashes)))
}

func vpPreBlockHashFromCtx(d *DBFT[vhash]) vhash {
	return vhash(vHash(kPreBlock, uint64(d.BlockIndex), uint64(d.PrevHash), d.Timestamp, d.Nonce, vTxListHash(d.TransactionHashes)))
}

// vpValidCommits counts the slots holding a commit of the current view whose signature
// verifies against the block with hash bh.
func vpValidCommits(d *DBFT[vhash], bh vhash) int {
	cnt := 0
	for i, c := range d.CommitPayloads {
		if c != nil {
			p := c.(*vPayload)
			if p.view == d.ViewNumber && p.sig&0xffffffff == vSigToken(i, bh) {
				cnt++
			}
		}
	}
	return cnt
}

func vpCurrentViewCommits(d *DBFT[vhash]) int {
	cnt := 0
	for _, c := range d.CommitPayloads {
		if c != nil && c.ViewNumber() == d.ViewNumber {
			cnt++
		}
	}
	return cnt
}

func vpValidPreCommits(d *DBFT[vhash], ph vhash) int {
	cnt := 0
	for i, c := range d.PreCommitPayloads {
		if c != nil {
			p := c.(*vPayload)
			if p.view == d.ViewNumber && p.data&0xffffffff == vDataToken(i, ph) {
				cnt++
			}
		}
	}
	return cnt
}

func vpCurrentViewPreCommits(d *DBFT[vhash]) int {
	cnt := 0
	for _, c := range d.PreCommitPayloads {
		if c != nil && c.ViewNumber() == d.ViewNumber {
			cnt++
		}
	}
	return cnt
}

// vpPreparations counts current-view preparations; those that are responses must name rh.
func vpPreparations(d *DBFT[vhash], rh vhash) int {
	cnt := 0
	for i, m := range d.PreparationPayloads {
		if m != nil {
			p := m.(*vPayload)
			if p.view == d.ViewNumber && p.height == d.BlockIndex {
				if uint(i) == d.PrimaryIndex {
					if p.typ == PrepareRequestType {
						cnt++
					}
				} else if p.typ == PrepareResponseType && p.prep == rh {
					cnt++
				}
			}
		}
	}
	return cnt
}

func vpTxOrder(txh []vhash, txs []Transaction[vhash]) bool {
	if len(txh) != len(txs) {
		return false
	}
	ok := true
	for i := range txh {
		if txs[i] == nil {
			ok = false
		} else if txs[i].Hash() != txh[i] {
			ok = false
		}
	}
	return ok
}

func vpSameTxs(a, b []vhash) bool {
	if len(a) != len(b) {
		return false
	}
	ok := true
	for i := range a {
		if a[i] != b[i] {
			ok = false
		}
	}
	return ok
}

func (e *vEnv) quiet() bool { return e.preBlockProcessed && e.api != apiReset && e.api != apiStart }

func (e *vEnv) broadcast(m ConsensusPayload[vhash]) {
	d := e.d
	p := m.(*vPayload)
	e.nBroadcast++
	switch p.typ {
	case PrepareRequestType:
		vCover("event.broadcast.preparerequest")
	case PrepareResponseType:
		vCover("event.broadcast.prepareresponse")
	case CommitType:
		vCover("event.broadcast.commit")
	case PreCommitType:
		vCover("event.broadcast.precommit")
	case ChangeViewType:
		vCover("event.broadcast.changeview")
	case RecoveryMessageType:
		vCover("event.broadcast.recoverymessage")
	case RecoveryRequestType:
		vCover("event.broadcast.recoveryrequest")
	}
	e.log = append(e.log, vEvent{kind: evBroadcast, typ: p.typ, p: p, h: p.height, v: p.view})
	if e.want("C13") {
		vAssert("C13.silent", !d.Context.WatchOnly())
	}
	if e.want("C05") {
		// after the decision: nothing but replies to recovery requests
		if e.quiet() {
			vAssert("C05.O2.quiet", p.typ == RecoveryMessageType && e.api == apiRecoveryRequest)
		}
	}
	if e.want("C03") {
		vAssert("C03.O5.height", p.height == d.BlockIndex)
		vAssert("C03.O5.view", p.view == d.ViewNumber)
		vAssert("C03.O5.index", int(p.vidx) == d.MyIndex)
		switch p.typ {
		case PrepareRequestType, PrepareResponseType:
			vAssert("C03.O1.slot", d.PreparationPayloads[d.MyIndex] == m)
			if d.BlockIndex == e.preHeight && d.ViewNumber == e.preView {
				vAssert("C03.O1.once", e.preOwnPrep == nil)
			}
		case CommitType:
			vAssert("C03.O2.slot", d.CommitPayloads[d.MyIndex] == m)
			if d.BlockIndex == e.preHeight {
				vAssert("C03.O2.same", e.preOwnCommit == nil || e.preOwnCommit == m)
			}
		case PreCommitType:
			vAssert("C03.O2.pre.slot", d.PreCommitPayloads[d.MyIndex] == m)
			if d.BlockIndex == e.preHeight {
				vAssert("C03.O2.pre.same", e.preOwnPreCommit == nil || e.preOwnPreCommit == m)
			}
		case ChangeViewType:
			vAssert("C03.O3.nocv.commit", d.CommitPayloads[d.MyIndex] == nil)
			vAssert("C03.O3.nocv.precommit", d.PreCommitPayloads[d.MyIndex] == nil)
		case RecoveryMessageType:
			if c := d.CommitPayloads[d.MyIndex]; c != nil {
				vAssert("C03.O4.recovery.commit", p.rec.cTab[d.MyIndex] == c)
			}
			if c := d.PreCommitPayloads[d.MyIndex]; c != nil {
				vAssert("C03.O4.recovery.precommit", p.rec.pcTab[d.MyIndex] == c)
			}
		}
	}
	if e.want("C04") {
		req := vpProposal(d)
		switch p.typ {
		case PrepareResponseType:
			vAssert("C04.O1.proposal", req != nil)
			if req != nil {
				vAssert("C04.O1.fromprimary", uint(req.vidx) == d.GetPrimaryIndex(d.ViewNumber) && req.typ == PrepareRequestType && req.view == d.ViewNumber)
				vAssert("C04.O1.alltx", vpHasAllTx(d) && vpSameTxs(d.TransactionHashes, req.txs))
				vAssert("C04.O1.names", p.prep == req.Hash())
				if e.amevOn() {
					vAssert("C04.O1.verified", e.verifiedPreOK && e.verifiedPreHash == vpPreBlockHashFromCtx(d))
				} else {
					vAssert("C04.O1.verified", e.verifiedOK && e.verifiedHash == vpBlockHashFromCtx(d))
				}
			}
		case CommitType, PreCommitType:
			first := p.typ == PreCommitType && e.preOwnPreCommit == nil || p.typ == CommitType && e.preOwnCommit == nil && !e.amevOn()
			if first {
				vAssert("C04.O2.proposal", req != nil)
				if req != nil {
					vAssert("C04.O2.alltx", vpHasAllTx(d) && vpSameTxs(d.TransactionHashes, req.txs))
					vAssert("C04.O2.quorum", vpPreparations(d, req.Hash()) >= d.M())
				}
			}
		}
	}
	if e.want("C09") {
		lostOrCommitted := d.CountCommitted()+d.CountFailed() > d.F()
		switch p.typ {
		case ChangeViewType:
			// a timeout asks for a view change only while at most F validators are committed or lost
			if p.reason == CVTimeout || p.reason == CVTxNotFound {
				vAssert("C09.L1.changeview", !lostOrCommitted)
			}
			vAssert("C09.L1.cv.newview", p.newView == d.ViewNumber+1)
		case RecoveryRequestType:
			vAssert("C09.L1.recoveryrequest", lostOrCommitted && e.api == apiTimeout || e.api != apiTimeout && e.api != apiNewTransaction)
		case RecoveryMessageType:
			if e.api == apiRecoveryRequest || e.api == apiChangeView {
				vCover("C09.L2.answered")
			}
		}
	}
	if e.want("C15") && p.typ == PrepareRequestType {
		vCover("C15.proposal")
		inc := d.Context.Config.TimestampIncrement
		floor := e.clock / inc * inc
		exp := d.lastBlockTimestamp + inc
		if floor > exp {
			exp = floor
		}
		vAssert("C15.O1.increasing", p.ts > d.lastBlockTimestamp)
		vAssert("C15.O2.value", p.ts == exp)
		vAssert("C15.O2.clock", p.ts >= floor && floor <= e.clock && e.clock-floor < inc)
		vAssert("C15.O3.args", e.nNPR > 0 && e.nprTs == p.ts && e.nprNonce == p.nonce && vpSameTxs(e.nprTxs, p.txs))
		okPool := len(p.txs) == len(e.pool)
		if okPool {
			for i, t := range e.pool {
				if p.txs[i] != t.Hash() {
					okPool = false
				}
				if _, has := d.Transactions[t.Hash()]; !has {
					okPool = false
				}
			}
		}
		vAssert("C15.O3.pool", okPool)
		vAssert("C15.O4.context", d.Timestamp == p.ts && d.Nonce == p.nonce && vpSameTxs(d.TransactionHashes, p.txs) && len(d.Transactions) == len(p.txs))
	}
	if e.want("C07") {
		amev := e.amevOn()
		if p.typ == PreCommitType {
			vAssert("C07.O4.noprecommit", amev)
		}
		if p.typ == CommitType && amev && e.preOwnCommit == nil {
			vAssert("C07.O1.ownprecommit", d.PreCommitPayloads[d.MyIndex] != nil)
			vAssert("C07.O1.quorum", vpCurrentViewPreCommits(d) >= d.M())
			vAssert("C07.O1.preblock", d.preBlockProcessed)
		}
	}
}

func (e *vEnv) processBlock(b Block[vhash]) error {
	d := e.d
	vb := b.(*vBlock)
	bh := vb.Hash()
	e.nProcessBlock++
	vCover("event.processblock")
	if e.want("C02") {
		valid := vpValidCommits(d, bh)
		kf := !e.amevOn() && e.kf1()
		vKnown("KF-1", kf && valid < d.M())
		vAssert("C02.O1.certificate", kf || valid >= d.M())
		vAssert("C02.O3.index", vb.idx == e.height+1)
		vAssert("C02.O3.prev", vb.prev == e.tip)
		req := vpProposal(d)
		vAssert("C02.O3.proposal", req != nil)
		if req != nil {
			vAssert("C02.O3.fromprimary", uint(req.vidx) == d.GetPrimaryIndex(d.ViewNumber) && req.view == d.ViewNumber)
			vAssert("C02.O3.ts", vb.ts == req.ts)
			vAssert("C02.O3.nonce", vb.nonce == req.nonce)
			vAssert("C02.O3.txhashes", vpSameTxs(vb.txh, req.txs))
			vAssert("C02.O3.txorder", vpTxOrder(req.txs, vb.txs))
		}
	}
	if e.want("C05") {
		vAssert("C05.O1.once", !e.quiet())
		vAssert("C05.O1.oncepercall", e.nProcessBlockOK == 0 || e.api == apiReset || e.api == apiStart)
		vAssert("C05.O1.flag", !d.blockProcessed)
	}
	if e.want("C07") {
		vAssert("C07.O3.block", !e.amevOn() || d.preBlockProcessed)
	}
	if vUF(kProcessBlock, uint64(bh), uint64(e.nProcessBlock)) != 0 {
		return &vErr{}
	}
	e.nProcessBlockOK++
	return nil
}

func (e *vEnv) processPreBlock(b PreBlock[vhash]) error {
	d := e.d
	pb := b.(*vPreBlock)
	ph := pb.hash()
	e.nProcessPre++
	vCover("event.processpreblock")
	if e.want("C02") {
		vAssert("C02.O2.certificate", vpValidPreCommits(d, ph) >= d.M())
		req := vpProposal(d)
		vAssert("C02.O2.proposal", req != nil)
		if req != nil {
			vAssert("C02.O2.content", pb.idx == e.height+1 && pb.prev == e.tip && pb.ts == req.ts && pb.nonce == req.nonce && vpSameTxs(pb.txh, req.txs) && vpTxOrder(req.txs, pb.txs))
		}
	}
	if e.want("C07") {
		vAssert("C07.O4.nopreblock", e.amevOn())
		vAssert("C07.O2.once", !d.preBlockProcessed && !e.prePreBlockProcessed || e.api == apiReset || e.api == apiStart)
		vAssert("C07.O2.oncepercall", e.nProcessPreOK == 0 || e.api == apiReset || e.api == apiStart)
	}
	if vUF(kProcessPre, uint64(ph), uint64(e.nProcessPre)) != 0 {
		return &vErr{}
	}
	e.nProcessPreOK++
	return nil
}
