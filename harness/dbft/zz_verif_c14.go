package dbft

import "time"

// C14 (clock-shift invariance, wall-clock independence): a RELATIONAL one-step check. World 1
// is an arbitrary Inv state; world 2 is a clone whose absolute time references (the injected
// clock, lastBlockTime, prepareSentTime, lastBlockTimestamp) are shifted by delta = k*increment
// while every duration, the round-trip estimates and everything else are equal. The same API
// call with the same arguments and the same callback results (the callbacks are deterministic
// functions of their arguments) is executed in both worlds. The machine's wall clock
// (time.Now/time.Since) is a fresh, unrelated value at every reading in each world. Asserted:
// the two worlds produce the same events (broadcasts with timestamps shifted by delta, timer
// calls with identical durations) and end in related states again. One step from every related
// pair of states covers scripted runs of any length.

func vShiftTime(t time.Time, delta uint64) time.Time {
	if t.IsZero() {
		return vZeroTime()
	}
	return vTime(vNs(t) + delta)
}

func vShiftClone(e *vEnv, delta uint64) *vEnv {
	e2 := vNewEnv(e.n, e.my, e.amevCfg, e.maxCfg)
	d, d2 := e.d, e2.d
	e2.watchFlag, e2.height, e2.tip, e2.tpb, e2.maxTpb, e2.amevH = e.watchFlag, e.height, e.tip, e.tpb, e.maxTpb, e.amevH
	e2.pool = e.pool
	e2.clock = e.clock + delta
	e2.th, e2.tv, e2.td, e2.armed = e.th, e.tv, e.td, e.armed
	d2.Config.AntiMEVExtensionEnablingHeight = d.Config.AntiMEVExtensionEnablingHeight
	d2.Context.Config.AntiMEVExtensionEnablingHeight = d.Context.Config.AntiMEVExtensionEnablingHeight
	d2.Config.TimestampIncrement = d.Config.TimestampIncrement
	d2.Context.Config.TimestampIncrement = d.Context.Config.TimestampIncrement
	e2.tsInc = e.tsInc
	d2.cache = newCache[vhash]()
	d2.BlockIndex, d2.ViewNumber, d2.MyIndex, d2.PrimaryIndex, d2.PrevHash = d.BlockIndex, d.ViewNumber, d.MyIndex, d.PrimaryIndex, d.PrevHash
	d2.Validators = e2.keys
	if e.my >= 0 {
		d2.Priv, d2.Pub = e2.keys[e.my], e2.keys[e.my]
	}
	d2.timePerBlock, d2.maxTimePerBlock = d.timePerBlock, d.maxTimePerBlock
	d2.lastBlockTimestamp = d.lastBlockTimestamp + delta
	d2.lastBlockTime = vShiftTime(d.lastBlockTime, delta)
	d2.prepareSentTime = vShiftTime(d.prepareSentTime, delta)
	d2.lastBlockIndex, d2.lastBlockView, d2.txSubscriptionOn = d.lastBlockIndex, d.lastBlockView, d.txSubscriptionOn
	d2.rttEstimates = d.rttEstimates
	d2.Timestamp, d2.Nonce, d2.TransactionHashes = d.Timestamp, d.Nonce, d.TransactionHashes
	d2.MissingTransactions = append([]vhash(nil), d.MissingTransactions...)
	d2.Transactions = make(map[vhash]Transaction[vhash])
	for _, h := range d.TransactionHashes {
		if t, ok := d.Transactions[h]; ok {
			d2.Transactions[h] = t
		}
	}
	d2.PreparationPayloads = vCopyTab(d.PreparationPayloads)
	d2.PreCommitPayloads = vCopyTab(d.PreCommitPayloads)
	d2.CommitPayloads = vCopyTab(d.CommitPayloads)
	d2.ChangeViewPayloads = vCopyTab(d.ChangeViewPayloads)
	d2.LastChangeViewPayloads = vCopyTab(d.LastChangeViewPayloads)
	d2.LastSeenMessage = make([]*HeightView, len(d.LastSeenMessage))
	for i, hv := range d.LastSeenMessage {
		if hv != nil {
			d2.LastSeenMessage[i] = &HeightView{hv.Height, hv.View}
		}
	}
	d2.blockProcessed, d2.preBlockProcessed = d.blockProcessed, d.preBlockProcessed
	return e2
}

// vpRelPayload: the same payload up to a timestamp shifted by delta (self-made payloads carry
// clock readings); random components (nonce, signature randomiser) are not compared.
func vpRelPayload(a, b *vPayload, delta uint64, shifted bool) bool {
	ok := a.typ == b.typ && a.height == b.height && a.view == b.view && a.vidx == b.vidx && a.newView == b.newView && a.reason == b.reason &&
		a.prep == b.prep && a.sig&0xffffffff == b.sig&0xffffffff && a.data&0xffffffff == b.data&0xffffffff && vpSameTxs(a.txs, b.txs)
	if shifted {
		return ok && b.ts == a.ts+delta
	}
	return ok && b.ts == a.ts
}

func vpRelTab(t1, t2 []ConsensusPayload[vhash], delta uint64, my int) bool {
	if len(t1) != len(t2) {
		return false
	}
	ok := true
	for i := range t1 {
		if (t1[i] == nil) != (t2[i] == nil) {
			ok = false
		} else if t1[i] != nil && t1[i] != t2[i] {
			// distinct objects: payloads this node made during the call
			a, b := t1[i].(*vPayload), t2[i].(*vPayload)
			if !vpRelPayload(a, b, delta, i == my && (a.typ == ChangeViewType || a.typ == PrepareRequestType || a.typ == RecoveryRequestType)) {
				ok = false
			}
		}
	}
	return ok
}

func vpRelTime(t1, t2 time.Time, delta uint64) bool {
	if t1.IsZero() || t2.IsZero() {
		return t1.IsZero() && t2.IsZero()
	}
	return vNs(t2) == vNs(t1)+delta
}

func vC14Call(e *vEnv, api int, msg *vPayload, th uint32, tv byte, txh vhash, ts uint64) {
	d := e.d
	switch {
	case api <= apiRecoveryMessage:
		d.OnReceive(msg)
	case api == apiTimeout:
		d.OnTimeout(th, tv)
	case api == apiTransaction:
		d.OnTransaction(&vTx{h: txh})
	case api == apiNewTransaction:
		d.OnNewTransaction()
	case api == apiReset:
		d.Reset(ts)
	}
}

func H_c14() {
	b := vBoundsFromParams()
	e1 := vSymState(b)
	d1 := e1.d
	api := vParam("api")
	e1.api = api
	vAssume(vpInv(e1, false))
	vAssume(!d1.blockProcessed)
	// lazily built blocks are rebuilt on demand: start without them (they hold no time)
	vAssume(d1.header == nil && d1.block == nil && d1.preHeader == nil && d1.preBlock == nil)
	if d1.MyIndex >= 0 && uint(d1.MyIndex) == d1.PrimaryIndex && d1.PreparationPayloads[d1.PrimaryIndex] == nil {
		// a proposal this node is about to make has a different hash in the shifted world: payloads
		// naming or signing "the" proposal before it exists are the same bytes in one world only
		for i := range d1.PreparationPayloads {
			vAssume(d1.PreparationPayloads[i] == nil && d1.CommitPayloads[i] == nil && d1.PreCommitPayloads[i] == nil)
		}
	}
	inc := d1.Context.Config.TimestampIncrement
	// the offset is any multiple of the timestamp increment (stated as a divisibility fact: the
	// product form k*inc made the truncation lemma much harder for the integer back end)
	delta := vU64("shift.delta")
	vAssume(delta <= 1<<50 && delta%inc == 0)
	vAssume(e1.clock < 1<<61 && d1.lastBlockTimestamp < 1<<61)

	var msg *vPayload
	var th uint32
	var tv byte
	var txh vhash
	var ts uint64
	switch {
	case api <= apiRecoveryMessage:
		msg = vSymPayload("msg", vMsgTypes[api], vU32("msg.height"))
		if api == apiPrepareRequest {
			msg.txs = vSymTxs("msg", vParam("mntx"))
		}
		vAssume(int(msg.vidx) != d1.MyIndex)
		vSplitSender(msg, vParam("split"), e1.n)
	case api == apiTimeout:
		th, tv = vU32("timeout.height"), vU8("timeout.view")
		vAssume(th == d1.BlockIndex && tv == d1.ViewNumber)
	case api == apiTransaction:
		txh = vhash(vU64("tx.hash"))
	case api == apiReset:
		ts = vU64("reset.ts")
		vAssume(ts < 1<<61)
		nh := vU32("new.height")
		vAssume(nh >= e1.height && nh < 0xfffffff0)
		e1.height = nh
		e1.tip = vhash(vU64("new.tip"))
	}
	// The truncation lemma, proved for ALL clock values and offsets by H_c14_lemma, instantiated
	// for this clock: with it the main queries need no reasoning about division at all (left to
	// the solver inside the big formula, the lemma made the outcome depend on solver luck).
	vAssume((e1.clock+delta)/inc*inc == e1.clock/inc*inc+delta)
	e2 := vShiftClone(e1, delta)
	e2.api = api
	d2 := e2.d

	vC14Call(e1, api, msg, th, tv, txh, ts)
	vCover("C14.world1")
	vC14Call(e2, api, msg, th, tv, txh, ts+delta)
	vCover("C14.world2")

	// --- same events
	vAssert("C14.events.count", len(e1.log) == len(e2.log))
	if len(e1.log) == len(e2.log) {
		for i := range e1.log {
			a, c := e1.log[i], e2.log[i]
			vAssert("C14.events.kind", a.kind == c.kind && a.typ == c.typ && a.h == c.h && a.v == c.v)
			if a.kind == evTimerReset || a.kind == evTimerExtend {
				vCover("C14.timer")
				vAssert("C14.timer.duration", a.d == c.d)
			}
			if a.kind == evBroadcast {
				vCover("C14.broadcast")
				shifted := a.typ == ChangeViewType || a.typ == PrepareRequestType || a.typ == RecoveryRequestType
				if shifted {
					vAssert("C14.broadcast.ts", c.p.ts == a.p.ts+delta)
				}
				vAssert("C14.broadcast.payload", vpRelPayload(a.p, c.p, delta, shifted))
			}
		}
	}
	// --- related post-states
	vAssert("C14.state.scalars", d1.BlockIndex == d2.BlockIndex && d1.ViewNumber == d2.ViewNumber && d1.MyIndex == d2.MyIndex && d1.PrimaryIndex == d2.PrimaryIndex &&
		d1.blockProcessed == d2.blockProcessed && d1.preBlockProcessed == d2.preBlockProcessed && d1.txSubscriptionOn == d2.txSubscriptionOn &&
		d1.lastBlockIndex == d2.lastBlockIndex && d1.lastBlockView == d2.lastBlockView && d1.timePerBlock == d2.timePerBlock &&
		len(d1.Transactions) == len(d2.Transactions) && vpSameTxs(d1.TransactionHashes, d2.TransactionHashes) && vpSameTxs(d1.MissingTransactions, d2.MissingTransactions))
	vAssert("C14.state.tables", vpRelTab(d1.PreparationPayloads, d2.PreparationPayloads, delta, d1.MyIndex) && vpRelTab(d1.CommitPayloads, d2.CommitPayloads, delta, d1.MyIndex) &&
		vpRelTab(d1.PreCommitPayloads, d2.PreCommitPayloads, delta, d1.MyIndex) && vpRelTab(d1.ChangeViewPayloads, d2.ChangeViewPayloads, delta, d1.MyIndex) &&
		vpRelTab(d1.LastChangeViewPayloads, d2.LastChangeViewPayloads, delta, d1.MyIndex))
	vAssert("C14.state.times", vpRelTime(d1.lastBlockTime, d2.lastBlockTime, delta) && vpRelTime(d1.prepareSentTime, d2.prepareSentTime, delta) &&
		d2.lastBlockTimestamp == d1.lastBlockTimestamp+delta)
	selfProposed := e1.nNPR > 0
	if selfProposed {
		vCover("C14.proposed")
		vAssert("C14.state.timestamp", d2.Timestamp == d1.Timestamp+delta)
	} else {
		vAssert("C14.state.timestamp", d2.Timestamp == d1.Timestamp)
	}
	// the round-trip estimate is a duration: it must not depend on the epoch or on the wall clock
	okRtt := d1.rttEstimates.avg == d2.rttEstimates.avg && d1.rttEstimates.idx == d2.rttEstimates.idx
	if vParam("rtt") != 0 {
		for i := 0; i < rttLength; i++ {
			if d1.rttEstimates.times[i] != d2.rttEstimates.times[i] {
				okRtt = false
			}
		}
	}
	vAssert("C14.state.rtt", okRtt)
	vAssert("C14.state.timer", e1.th == e2.th && e1.tv == e2.tv && e1.td == e2.td && e1.armed == e2.armed)
	vCover("C14.end")
}

// H_c14_lemma: truncation to the timestamp increment commutes with a shift by a multiple of the
// increment, for every clock reading below 2^61, every offset up to 2^50 and the increment
// selected by parameter tsinc (0: the default 10^6 ns; 1: any increment in [1, 2^40]).
func H_c14_lemma() {
	e := vNewEnv(1, 0, false, false)
	vSymTsInc(e)
	inc := e.d.Context.Config.TimestampIncrement
	c := vU64("clock")
	delta := vU64("shift.delta")
	vAssume(c < 1<<61 && delta <= 1<<50 && delta%inc == 0)
	vCover("C14.lemma")
	vCheck("C14.lemma.truncation", (c+delta)/inc*inc == c/inc*inc+delta)
}
