package dbft

// The state invariant Inv (DESIGN §5): assumed on the symbolic pre-state, asserted on the
// post-state of every step harness. vReq either assumes or asserts one conjunct.

// The conjuncts are accumulated into ONE condition (one solver query per path instead of
// fifty); natively vSubFail records which conjunct failed, so the replay names it. In assert
// mode a conjunct is included only if one of its owner properties is selected (vWant), so a
// property's check never alarms on a conjunct its own inductive argument does not use; in
// assume mode (pre-state) every conjunct is included.
type vInvMode struct {
	assert bool
	e      *vEnv
	ok     bool
}

func (m *vInvMode) req(owners, id string, c bool) {
	if m.assert && !vWant(owners) {
		return
	}
	if !c {
		m.ok = false
		if m.assert {
			vSubFail(id)
		}
	}
}

func vpCount(tab []ConsensusPayload[vhash]) int {
	cnt := 0
	for _, p := range tab {
		if p != nil {
			cnt++
		}
	}
	return cnt
}

func vpInList(l []vhash, h vhash) bool {
	found := false
	for _, x := range l {
		if x == h {
			found = true
		}
	}
	return found
}

// vpSlotsOK: Inv 3/4/8/9 for one table: every stored payload sits in the slot of its
// validator index, has the node's height and the table's type(s).
func vpSlotsOK(d *DBFT[vhash], tab []ConsensusPayload[vhash], t1, t2 MessageType) bool {
	ok := true
	for i, m := range tab {
		if m != nil {
			p := m.(*vPayload)
			if int(p.vidx) != i || p.height != d.BlockIndex || (p.typ != t1 && p.typ != t2) {
				ok = false
			}
		}
	}
	return ok
}

func vpPrepsOK(d *DBFT[vhash]) bool {
	ok := true
	for i, m := range d.PreparationPayloads {
		if m != nil {
			p := m.(*vPayload)
			if p.view != d.ViewNumber {
				ok = false
			}
			if uint(i) == d.PrimaryIndex {
				if p.typ != PrepareRequestType {
					ok = false
				}
			} else if p.typ != PrepareResponseType {
				ok = false
			}
		}
	}
	return ok
}

func vpResponsesName(d *DBFT[vhash], rh vhash) bool {
	ok := true
	for i, m := range d.PreparationPayloads {
		if m != nil && uint(i) != d.PrimaryIndex {
			if m.(*vPayload).prep != rh {
				ok = false
			}
		}
	}
	return ok
}

func vpChangeViewsOK(d *DBFT[vhash]) bool {
	ok := true
	for i, m := range d.ChangeViewPayloads {
		if m != nil {
			p := m.(*vPayload)
			if p.newView <= d.ViewNumber {
				ok = false
			}
			if i == d.MyIndex && !d.Context.WatchOnly() && (p.newView != d.ViewNumber+1 || p.view != d.ViewNumber) {
				ok = false
			}
		}
	}
	for _, m := range d.LastChangeViewPayloads {
		if m != nil && m.(*vPayload).newView < d.ViewNumber {
			ok = false
		}
	}
	return ok
}

func vpViewsNotAbove(d *DBFT[vhash], tab []ConsensusPayload[vhash]) bool {
	ok := true
	for _, m := range tab {
		if m != nil && m.ViewNumber() > d.ViewNumber {
			ok = false
		}
	}
	return ok
}

func vpAllCurrentCommitsValid(d *DBFT[vhash], bh vhash) bool {
	return vpValidCommits(d, bh) == vpCurrentViewCommits(d)
}

func vpAllCurrentPreCommitsValid(d *DBFT[vhash], ph vhash) bool {
	return vpValidPreCommits(d, ph) == vpCurrentViewPreCommits(d)
}

func vpTxKeysProposed(d *DBFT[vhash]) bool {
	ok := true
	for k := range d.Transactions {
		if !vpInList(d.TransactionHashes, k) {
			ok = false
		}
	}
	return ok
}

func vpMissingComplete(d *DBFT[vhash]) bool {
	ok := true
	for _, h := range d.TransactionHashes {
		if _, has := d.Transactions[h]; !has {
			if !vpInList(d.MissingTransactions, h) {
				ok = false
			}
		}
	}
	return ok
}

func vpHeaderMatches(d *DBFT[vhash], b Block[vhash]) bool {
	hb := b.(*vBlock)
	return hb.idx == d.BlockIndex && hb.prev == d.PrevHash && hb.ts == d.Timestamp && hb.nonce == d.Nonce && vpSameTxs(hb.txh, d.TransactionHashes)
}

func vpPreHeaderMatches(d *DBFT[vhash], b PreBlock[vhash]) bool {
	hb := b.(*vPreBlock)
	return hb.idx == d.BlockIndex && hb.prev == d.PrevHash && hb.ts == d.Timestamp && hb.nonce == d.Nonce && vpSameTxs(hb.txh, d.TransactionHashes)
}

func vpInv(e *vEnv, assert bool) bool {
	m := &vInvMode{assert: assert, e: e, ok: true}
	d := e.d
	n := len(d.Validators)
	// 1 sizes
	m.req("C01,C02,C03,C04,C05,C07,C10,C11,C12,C13", "INV.01.sizes", n >= 1 && len(d.PreparationPayloads) == n && len(d.PreCommitPayloads) == n && len(d.CommitPayloads) == n &&
		len(d.ChangeViewPayloads) == n && len(d.LastChangeViewPayloads) == n && len(d.LastSeenMessage) == n)
	m.req("C01,C02,C03,C04,C05,C07,C10,C11,C12,C13", "INV.01.myindex", d.MyIndex >= -1 && d.MyIndex < n)
	// 2 primary
	m.req("C01,C02,C03,C04,C05,C13", "INV.02.primary", d.PrimaryIndex == d.GetPrimaryIndex(d.ViewNumber))
	m.req("C01,C02,C03,C04,C05,C13", "INV.02.height", d.BlockIndex == e.height+1)
	// 3/4 slots
	m.req("C01,C02,C03,C04,C05,C11", "INV.03.preparations", vpSlotsOK(d, d.PreparationPayloads, PrepareRequestType, PrepareResponseType))
	m.req("C01,C02,C03,C04,C05,C11", "INV.03.precommits", vpSlotsOK(d, d.PreCommitPayloads, PreCommitType, PreCommitType))
	m.req("C01,C02,C03,C04,C05,C11", "INV.03.commits", vpSlotsOK(d, d.CommitPayloads, CommitType, CommitType))
	m.req("C01,C02,C03,C04,C05,C11", "INV.03.changeviews", vpSlotsOK(d, d.ChangeViewPayloads, ChangeViewType, ChangeViewType))
	m.req("C01,C02,C03,C04,C05,C11", "INV.03.lastchangeviews", vpSlotsOK(d, d.LastChangeViewPayloads, ChangeViewType, ChangeViewType))
	m.req("C02,C03,C04,C11", "INV.04.preparations", vpPrepsOK(d))
	// 5 proposal
	req := vpProposal(d)
	amev := e.amevOn()
	if req != nil {
		m.req("C01,C02,C04,C05,C11,C12", "INV.05.ctx", d.Timestamp == req.ts && d.Nonce == req.nonce && vpSameTxs(d.TransactionHashes, req.txs))
		m.req("C01,C02,C04,C05,C11,C12", "INV.05.responses", vpResponsesName(d, req.Hash()))
	} else {
		m.req("C01,C02,C04,C05,C11,C12", "INV.05.noproposal", len(d.TransactionHashes) == 0 && len(d.Transactions) == 0 && len(d.MissingTransactions) == 0)
		m.req("C01,C02,C04,C05,C11,C12,C15", "INV.05.noheader", d.header == nil && d.block == nil && d.preHeader == nil && d.preBlock == nil)
		m.req("C01,C02,C05,C07", "INV.13.noblock", !d.blockProcessed)
	}
	// 6/7 transactions
	m.req("C02,C04,C11,C12", "INV.06.txkeys", vpTxKeysProposed(d))
	if req != nil && d.IsBackup() && !d.Context.WatchOnly() && d.PreparationPayloads[d.MyIndex] == nil && !d.blockProcessed {
		m.req("C11,C12", "INV.07.missing", vpMissingComplete(d))
	}
	// 8 change views
	m.req("C03,C04,C11", "INV.08.changeviews", vpChangeViewsOK(d))
	if d.ViewNumber > 0 {
		m.req("C03,C04,C11", "INV.08.evidence", vpCount(d.LastChangeViewPayloads) >= d.M())
	} else {
		m.req("C03,C04,C11", "INV.08.noevidence", vpCount(d.LastChangeViewPayloads) == 0)
	}
	// 9 commit tables
	m.req("C01,C02,C05,C07", "INV.09.commitviews", vpViewsNotAbove(d, d.CommitPayloads))
	m.req("C01,C02,C05,C07", "INV.09.precommitviews", vpViewsNotAbove(d, d.PreCommitPayloads))
	if !amev {
		m.req("C01,C02,C05,C07", "INV.09.noamev", vpCount(d.PreCommitPayloads) == 0 && !d.preBlockProcessed && d.preHeader == nil && d.preBlock == nil)
	}
	// 10 verified on arrival (KF-1 carve-out on the dBFT 2.0 path, DESIGN §7)
	if req != nil {
		if !amev {
			ok := vpAllCurrentCommitsValid(d, vpBlockHashFromCtx(d))
			if assert {
				if vWant("C01,C02") {
					vKnown("KF-1", e.kf1() && !ok)
				}
				m.req("C01,C02", "INV.10.commits", e.kf1() || ok)
			} else {
				m.req("C01,C02", "INV.10.commits", ok)
			}
		} else {
			if d.preBlockProcessed {
				m.req("C01,C02", "INV.10.commits.amev", vpAllCurrentCommitsValid(d, vpBlockHashFromCtx(d)))
			}
			if vpHasAllTx(d) {
				m.req("C01,C02", "INV.10.precommits", vpAllCurrentPreCommitsValid(d, vpPreBlockHashFromCtx(d)))
			}
		}
	}
	// 11 own slots
	// A node running watch-only under a validator key treats its own index like any other
	// validator's (payloads it sent in an earlier life may be stored there): no own-slot facts.
	if d.MyIndex >= 0 && !d.Context.Config.WatchOnly() {
		my := d.MyIndex
		if uint(my) != d.PrimaryIndex && d.PreparationPayloads[my] != nil {
			m.req("C01,C03,C04,C07,C13", "INV.11.ownresponse", req != nil && vpHasAllTx(d))
		}
		if c := d.PreCommitPayloads[my]; c != nil {
			m.req("C01,C03,C04,C07,C13", "INV.11.ownprecommit", amev && req != nil && vpHasAllTx(d) && c.ViewNumber() == d.ViewNumber)
		}
		if c := d.CommitPayloads[my]; c != nil {
			m.req("C01,C03,C04,C07,C13", "INV.11.owncommit", req != nil && vpHasAllTx(d) && c.ViewNumber() == d.ViewNumber && d.header != nil)
			if req != nil {
				m.req("C01,C03,C04,C07,C13", "INV.11.owncommit.sig", c.(*vPayload).sig&0xffffffff == vSigToken(my, vpBlockHashFromCtx(d)))
			}
			if amev {
				m.req("C01,C03,C04,C07,C13", "INV.11.owncommit.amev", d.PreCommitPayloads[my] != nil && d.preBlockProcessed)
			}
		}
	}
	// 12 lazily built objects
	if d.header != nil {
		m.req("C01,C02,C07,C15", "INV.12.header", req != nil && (!amev || d.preBlockProcessed) && vpHeaderMatches(d, d.header))
	}
	if d.block != nil {
		m.req("C01,C02,C07,C15", "INV.12.block", d.block == d.header && vpHasAllTx(d))
	}
	if d.preHeader != nil {
		m.req("C01,C02,C07,C15", "INV.12.preheader", req != nil && amev && vpPreHeaderMatches(d, d.preHeader))
	}
	if d.preBlock != nil {
		m.req("C01,C02,C07,C15", "INV.12.preblock", d.preBlock == d.preHeader && vpHasAllTx(d))
	}
	// 13 decided
	if d.blockProcessed {
		m.req("C01,C02,C05,C07", "INV.13.decided", req != nil && vpHasAllTx(d) && vpCurrentViewCommits(d) >= d.M() && (!amev || d.preBlockProcessed))
	}
	if d.preBlockProcessed {
		// the pre-block is processed once per HEIGHT: the flag survives view changes
		m.req("C01,C02,C05,C07", "INV.13.predecided", amev)
		if !assert {
			// Global fact, assumed only (not inductive for one node in isolation): the view
			// does not change after the pre-block was processed, because M validators sent
			// valid pre-commits, M-F of them are honest and locked, and the remaining 2F < M
			// cannot form a change-view quorum. Hence the proposal is still known.
			m.req("", "INV.G1.predecided.proposal", req != nil && vpHasAllTx(d))
		}
	}
	// 14 timer
	if !d.Context.WatchOnly() && !d.blockProcessed {
		m.req("C10", "INV.14.timer", e.armed && e.th == d.BlockIndex && e.tv == d.ViewNumber)
	}
	// 16 misc
	m.req("C05,C11,C16", "INV.16.recovering", !d.recovering)
	m.req("C05,C11,C16", "INV.16.txsub", !d.txSubscriptionOn || d.Config.MaxTimePerBlock != nil)
	m.req("C05,C11,C16", "INV.16.rtt", d.rttEstimates.idx >= 0 && d.rttEstimates.idx < rttLength && d.rttEstimates.avg >= 0)
	return m.ok
}
