package dbft

// Symbolic node state (DESIGN §5): every per-validator slot is "nil or a payload with symbolic
// fields", flags and scalars are fresh inputs; the representation invariant is established by
// construction where possible and by vAssume otherwise. Concrete per run (parameters): n, own
// index my, primary index prim, anti-MEV configured, MaxTimePerBlock configured, number of
// proposed transactions ntx and which of them are held (txmask), cache size.

import "time"

const vMaxView = 20 // timePerBlock << (view+2) must not overflow int64 (DESIGN §4)

func vSymPayload(tag string, t MessageType, h uint32) *vPayload {
	return &vPayload{typ: t, height: h, view: vU8(tag + ".view"), vidx: vU16(tag + ".vidx"), newView: vU8(tag + ".newview"),
		reason: ChangeViewReason(vU8(tag + ".reason")), ts: vU64(tag + ".ts"), nonce: vU64(tag + ".nonce"),
		prep: vhash(vU64(tag + ".prep")), sig: vU64(tag + ".sig"), data: vU64(tag + ".data")}
}

func vSymTxs(tag string, n int) []vhash {
	txs := make([]vhash, n)
	for i := 0; i < n; i++ {
		txs[i] = vhash(vU64(tag + ".tx"))
	}
	// proposals list pairwise distinct hashes (stated assumption, DESIGN C12)
	for i := 0; i < n; i++ {
		for j := i + 1; j < n; j++ {
			vAssume(txs[i] != txs[j])
		}
	}
	return txs
}

type vBounds struct {
	n, my, prim     int
	amevCfg, maxCfg bool
	ntx, txmask     int
	ncache          int
	noreq           int // 1: proposal unknown, 2: proposal known, 0: symbolic... (concrete: see below)
}

func vBoundsFromParams() vBounds {
	return vBounds{n: vParam("n"), my: vParam("my"), prim: vParam("prim"), amevCfg: vParam("amev") != 0, maxCfg: vParam("maxtpb") != 0,
		ntx: vParam("ntx"), txmask: vParam("txmask"), ncache: vParam("ncache"), noreq: vParam("req")}
}

// vSymState builds an arbitrary node state at a symbolic height and view.
// Parameter req: 1 = proposal known (PrepareRequest stored), 0 = unknown.
func vSymState(b vBounds) *vEnv {
	e := vNewEnv(b.n, b.my, b.amevCfg, b.maxCfg)
	d := e.d
	n := b.n
	e.watchFlag = vBool("watchflag")
	e.height = vU32("ledgerheight")
	vAssume(e.height < 0xfffffff0)
	e.tip = vhash(vU64("tip"))
	e.tpb = time.Duration(vI64("tpb"))
	vAssume(e.tpb > 0 && e.tpb <= 1<<40)
	if b.maxCfg {
		e.maxTpb = time.Duration(vI64("maxtpb"))
		vAssume(e.maxTpb >= e.tpb && e.maxTpb <= 1<<41)
	}
	e.clock = vU64("clock")
	vAssume(e.clock < 1<<62)
	if b.amevCfg {
		e.amevH = int64(vU32("amevheight"))
		d.Config.AntiMEVExtensionEnablingHeight = e.amevH
		d.Context.Config.AntiMEVExtensionEnablingHeight = e.amevH
	} else {
		e.amevH = -1
	}

	vSymTsInc(e)
	// --- context scalars
	d.cache = newCache[vhash]()
	d.BlockIndex = e.height + 1
	d.ViewNumber = vU8("view")
	vAssume(d.ViewNumber <= vMaxView)
	d.Validators = e.keys
	d.MyIndex = b.my
	if b.my >= 0 {
		d.Priv, d.Pub = e.keys[b.my], e.keys[b.my]
	}
	vAssume(d.GetPrimaryIndex(d.ViewNumber) == uint(b.prim)) // Inv 2
	d.PrimaryIndex = uint(b.prim)
	d.PrevHash = e.tip
	d.timePerBlock = e.tpb
	d.maxTimePerBlock = e.maxTpb
	d.lastBlockTimestamp = vU64("lastblockts")
	vAssume(d.lastBlockTimestamp < 1<<62)
	lbt := vU64("lastblocktime")
	vAssume(lbt <= e.clock)
	d.lastBlockTime = vTimeZ(vBool("lastblocktime.zero"), lbt)
	pst := vU64("preparesenttime")
	vAssume(pst <= e.clock)
	d.prepareSentTime = vTimeZ(vBool("preparesenttime.zero"), pst)
	d.lastBlockIndex = vU32("lastblockindex")
	vAssume(d.lastBlockIndex <= d.BlockIndex)
	d.lastBlockView = vU8("lastblockview")
	if b.maxCfg {
		d.txSubscriptionOn = vBool("txsub")
	}
	d.rttEstimates.avg = time.Duration(vI64("rttavg"))
	vAssume(d.rttEstimates.avg >= 0 && d.rttEstimates.avg <= 1<<40)
	d.rttEstimates.idx = int(vU8("rttidx"))
	vAssume(d.rttEstimates.idx < rttLength)
	if vParam("rtt") != 0 {
		for i := 0; i < rttLength; i++ {
			d.rttEstimates.times[i] = time.Duration(vI64("rtttime"))
			vAssume(d.rttEstimates.times[i] >= 0 && d.rttEstimates.times[i] <= 1<<40)
		}
	}
	amev := e.amevOn()

	// --- tables
	d.PreparationPayloads = make([]ConsensusPayload[vhash], n)
	d.PreCommitPayloads = make([]ConsensusPayload[vhash], n)
	d.CommitPayloads = make([]ConsensusPayload[vhash], n)
	d.ChangeViewPayloads = make([]ConsensusPayload[vhash], n)
	d.LastChangeViewPayloads = make([]ConsensusPayload[vhash], n)
	d.LastSeenMessage = make([]*HeightView, n)
	d.Transactions = make(map[vhash]Transaction[vhash])

	hasReq := b.noreq != 0
	var req *vPayload
	var reqHash vhash
	if hasReq {
		req = vSymPayload("req", PrepareRequestType, d.BlockIndex)
		req.view = d.ViewNumber
		req.vidx = uint16(b.prim)
		req.txs = vSymTxs("req", b.ntx)
		reqHash = req.Hash()
		d.PreparationPayloads[b.prim] = req
		d.Timestamp, d.Nonce, d.TransactionHashes = req.ts, req.nonce, req.txs
		// Inv 6/7: held transactions are proposed ones; the missing list has the others
		for i := 0; i < b.ntx; i++ {
			if b.txmask&(1<<uint(i)) != 0 {
				d.Transactions[req.txs[i]] = &vTx{h: req.txs[i]}
			} else {
				d.MissingTransactions = append(d.MissingTransactions, req.txs[i])
			}
		}
	} else {
		d.Timestamp = vU64("stale.ts")
		d.Nonce = vU64("stale.nonce")
	}
	allTx := !hasReq || b.txmask == (1<<uint(b.ntx))-1

	nLastCV := 0
	for i := 0; i < n; i++ {
		if i != b.prim {
			p := vSymPayload("resp", PrepareResponseType, d.BlockIndex)
			p.view = d.ViewNumber
			p.vidx = uint16(i)
			if hasReq {
				vAssume(p.prep == reqHash) // Inv 5
			}
			d.PreparationPayloads[i] = vMaybe("resp.present", p)
		}
		c := vSymPayload("commit", CommitType, d.BlockIndex)
		c.vidx = uint16(i)
		vAssume(c.view <= d.ViewNumber) // Inv 9
		d.CommitPayloads[i] = vMaybe("commit.present", c)
		if b.amevCfg {
			pc := vSymPayload("precommit", PreCommitType, d.BlockIndex)
			pc.vidx = uint16(i)
			vAssume(pc.view <= d.ViewNumber)
			d.PreCommitPayloads[i] = vMaybe("precommit.present", pc)
			if !amev {
				vAssume(d.PreCommitPayloads[i] == nil) // Inv 9
			}
		}
		cv := vSymPayload("cv", ChangeViewType, d.BlockIndex)
		cv.vidx = uint16(i)
		vAssume(cv.newView > d.ViewNumber) // Inv 8
		if i == b.my {
			vAssume(e.watchFlag || cv.newView == d.ViewNumber+1 && cv.view == d.ViewNumber)
		}
		d.ChangeViewPayloads[i] = vMaybe("cv.present", cv)
		lcv := vSymPayload("lastcv", ChangeViewType, d.BlockIndex)
		lcv.vidx = uint16(i)
		vAssume(lcv.newView >= d.ViewNumber)
		d.LastChangeViewPayloads[i] = vMaybe("lastcv.present", lcv)
		if d.LastChangeViewPayloads[i] != nil {
			nLastCV++
		}
		hv := &HeightView{Height: vU32("seen.height"), View: vU8("seen.view")}
		vAssume(hv.Height <= d.BlockIndex)
		vAssume(hv.Height < d.BlockIndex || hv.View <= d.ViewNumber || true)
		d.LastSeenMessage[i] = vMaybeHV("seen.present", hv)
	}
	if d.ViewNumber > 0 {
		vAssume(nLastCV >= d.M())
	} else {
		vAssume(nLastCV == 0)
	}
	if b.my >= 0 {
		// reset stores the own (height, view) and nothing lowers it
		vAssume(d.LastSeenMessage[b.my] != nil)
		vAssume(d.LastSeenMessage[b.my].Height == d.BlockIndex && d.LastSeenMessage[b.my].View == d.ViewNumber)
	}

	// --- flags and lazily built objects
	d.blockProcessed = vBool("blockprocessed")
	if b.amevCfg {
		d.preBlockProcessed = vBool("preblockprocessed")
		if !amev {
			vAssume(!d.preBlockProcessed)
		}
	}
	if hasReq {
		hb := &vBlock{idx: d.BlockIndex, prev: d.PrevHash, ts: d.Timestamp, nonce: d.Nonce, txh: d.TransactionHashes, env: e}
		hb.sig = vU64("header.sig")
		d.header = vMaybeBlock("header.built", hb)
		if amev && !d.preBlockProcessed {
			vAssume(d.header == nil) // Inv 12
		}
		if allTx {
			hb.txs = vTxList(d)
			d.block = vMaybeBlock("block.built", hb)
			vAssume(d.block == nil || d.header != nil)
		}
		if b.amevCfg {
			pb := &vPreBlock{idx: d.BlockIndex, prev: d.PrevHash, ts: d.Timestamp, nonce: d.Nonce, txh: d.TransactionHashes, env: e}
			pb.data = vU64("preheader.data")
			d.preHeader = vMaybePre("preheader.built", pb)
			if !amev {
				vAssume(d.preHeader == nil)
			}
			if allTx {
				pb.txs = vTxList(d)
				d.preBlock = vMaybePre("preblock.built", pb)
				vAssume(d.preBlock == nil || d.preHeader != nil)
			}
		}
	} else {
		vAssume(!d.blockProcessed)
	}

	// --- timer (Inv 14)
	e.th, e.tv = vU32("timer.h"), vU8("timer.v")
	e.armed = vBool("timer.armed")
	e.td = time.Duration(vI64("timer.d"))

	// --- cache of future payloads (Inv 15): ncache payloads of the types given by ctype0/ctype1
	for i := 0; i < b.ncache; i++ {
		ct := vParam("ctype0")
		if i == 1 {
			ct = vParam("ctype1")
		} else if i == 2 {
			ct = vParam("ctype2")
		}
		cp := vSymPayload("cache", vMsgTypes[ct], vU32("cache.height"))
		if ct == apiPrepareRequest {
			cp.txs = vSymTxs("cache", vParam("mntx"))
		}
		vAssume(int(cp.vidx) != b.my || e.watchFlag || cp.height > d.BlockIndex) // a later height may have another validator list
		if vParam("csame") == 1 {
			vAssume(cp.height == d.BlockIndex)
		} else if vParam("csame") == 2 {
			vAssume(cp.height > d.BlockIndex)
		}
		vAssume(cp.height > d.BlockIndex || (cp.height == d.BlockIndex && cp.view > d.ViewNumber && ct != apiChangeView))
		d.cache.addMessage(cp)
		e.cached = append(e.cached, cp)
	}

	e.pool = nil
	np := vParam("npool")
	for i := 0; i < np; i++ {
		e.pool = append(e.pool, &vTx{h: vhash(vU64("pool.tx"))})
	}
	for i := 0; i < np; i++ {
		for j := i + 1; j < np; j++ {
			vAssume(e.pool[i].Hash() != e.pool[j].Hash())
		}
	}
	if vParam("poollater") != 0 {
		// a transaction arrives between two readings of the pool inside one call
		e.poolLater = append(append([]Transaction[vhash](nil), e.pool...), &vTx{h: vhash(vU64("pool.later"))})
		for _, t := range e.pool {
			vAssume(t.Hash() != e.poolLater[len(e.poolLater)-1].Hash())
		}
	}
	if vParam("mdup") != 0 && len(d.MissingTransactions) > 0 {
		// sendRecoveryRequest re-requests the missing transactions: the list may hold a hash twice
		d.MissingTransactions = append(d.MissingTransactions, d.MissingTransactions[0])
	}
	return e
}

func vTxList(d *DBFT[vhash]) []Transaction[vhash] {
	txx := make([]Transaction[vhash], len(d.TransactionHashes))
	for i, h := range d.TransactionHashes {
		txx[i] = d.Transactions[h]
	}
	return txx
}

// vSymTsInc: parameter tsinc: 0 = the default increment (10^6 ns), 1 = any increment in
// [1, 2^40], 2 = any power of two up to 2^40.
func vSymTsInc(e *vEnv) {
	d := e.d
	switch vParam("tsinc") {
	case 1:
		inc := vU64("tsinc")
		vAssume(inc >= 1 && inc <= 1<<40)
		d.Config.TimestampIncrement, d.Context.Config.TimestampIncrement = inc, inc
	case 2:
		k := vU8("tsinc.log2")
		vAssume(k <= 40)
		inc := uint64(1) << k
		d.Config.TimestampIncrement, d.Context.Config.TimestampIncrement = inc, inc
	}
	e.tsInc = d.Context.Config.TimestampIncrement
}
