package dbft

import (
	"crypto/rand"
	"encoding/json"
	"fmt"
	"os"
	"testing"
)

// TestVerifReplay runs one harness entry natively with the inputs of a solver model
// (VERIF_REPLAY=<vector.json>) and reports which assertions failed.
func TestVerifReplay(t *testing.T) {
	path := os.Getenv("VERIF_REPLAY")
	if path == "" {
		t.Skip("VERIF_REPLAY not set")
	}
	b, err := os.ReadFile(path)
	if err != nil {
		t.Fatal(err)
	}
	var vec vVector
	if err := json.Unmarshal(b, &vec); err != nil {
		t.Fatal(err)
	}
	vRun = vRunState{vec: &vec}
	// the proposal nonce (crypto/rand in Context.Fill) comes from the vector too
	rand.Reader = vNonceReader{}
	fn := vEntry(vec.Entry)
	if fn == nil {
		t.Fatalf("no harness entry %s", vec.Entry)
	}
	pan := ""
	func() {
		defer func() {
			if r := recover(); r != nil {
				if _, ok := r.(vAssumeFailed); !ok {
					pan = fmt.Sprint(r)
				}
			}
		}()
		fn()
	}()
	out, _ := json.Marshal(map[string]interface{}{
		"failed": vRun.failed, "known": vRun.known, "covers": vRun.covers,
		"panic": pan, "tagerr": vRun.tagErr, "assume_ko": vRun.assumeKO,
	})
	fmt.Printf("REPLAY-RESULT %s\n", out)
}

type vNonceReader struct{}

func (vNonceReader) Read(b []byte) (int, error) {
	x := vNext("nonce")
	for i := range b {
		b[i] = byte(x >> (8 * uint(i%8)))
	}
	return len(b), nil
}
