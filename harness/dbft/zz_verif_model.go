package dbft

// Application-side models with stated contracts (DESIGN §4): payloads with arbitrary fields
// (the Byzantine sender), injective hashes, Dolev-Yao signatures, callbacks whose results are
// arbitrary but deterministic functions of their arguments, an injected timer and clock, and
// an event log. The library itself is the real code.

import (
	"time"

	"go.uber.org/zap"
)

// hash / uninterpreted-function kinds
const (
	kPayload      = 1
	kTxList       = 2
	kBlock        = 3
	kSig          = 4
	kPreBlock     = 5
	kPreData      = 6
	kRecovery     = 7
	kGetTx        = 20
	kVerifyBlock  = 21
	kVerifyPre    = 22
	kVerifyPReq   = 23
	kVerifyPResp  = 24
	kVerifyCommit = 25
	kVerifyPreC   = 26
	kProcessBlock = 27
	kProcessPre   = 28
	kSignErr      = 29
	kSetDataErr   = 30
)

// ---------------------------------------------------------------- payloads

type vPayload struct {
	typ     MessageType
	height  uint32
	view    byte
	vidx    uint16
	newView byte
	reason  ChangeViewReason
	ts      uint64
	nonce   uint64
	txs     []vhash
	prep    vhash
	sig     uint64
	data    uint64
	rec     *vRecovery
}

func (p *vPayload) ViewNumber() byte                           { return p.view }
func (p *vPayload) Type() MessageType                          { return p.typ }
func (p *vPayload) Payload() any                               { return p }
func (p *vPayload) GetChangeView() ChangeView                  { return p }
func (p *vPayload) GetPrepareRequest() PrepareRequest[vhash]   { return p }
func (p *vPayload) GetPrepareResponse() PrepareResponse[vhash] { return p }
func (p *vPayload) GetPreCommit() PreCommit                    { return p }
func (p *vPayload) GetCommit() Commit                          { return p }
func (p *vPayload) GetRecoveryRequest() RecoveryRequest        { return p }
func (p *vPayload) GetRecoveryMessage() RecoveryMessage[vhash] {
	if p.rec == nil {
		return nil
	}
	return p.rec
}
func (p *vPayload) ValidatorIndex() uint16     { return p.vidx }
func (p *vPayload) SetValidatorIndex(i uint16) { p.vidx = i }
func (p *vPayload) Height() uint32             { return p.height }
func (p *vPayload) NewViewNumber() byte        { return p.newView }
func (p *vPayload) Reason() ChangeViewReason   { return p.reason }
func (p *vPayload) Timestamp() uint64          { return p.ts }
func (p *vPayload) Nonce() uint64              { return p.nonce }
func (p *vPayload) TransactionHashes() []vhash { return p.txs }
func (p *vPayload) PreparationHash() vhash     { return p.prep }
func (p *vPayload) Signature() []byte          { return vBytesOf(p.sig) }
func (p *vPayload) Data() []byte               { return vBytesOf(p.data) }

func vTxListHash(txs []vhash) uint64 {
	var t uint64
	for _, h := range txs {
		t = vHash(kTxList, t, uint64(h))
	}
	return t
}

// Hash covers every content field: hashes of two different payloads are different.
func (p *vPayload) Hash() vhash {
	hdr := uint64(p.typ) | uint64(p.height)<<8 | uint64(p.view)<<40 | uint64(p.vidx)<<48
	cv := uint64(p.newView) | uint64(p.reason)<<8
	var rec uint64
	if p.rec != nil {
		rec = p.rec.id
	}
	return vhash(vHash(kPayload, hdr, cv, p.ts, p.nonce, vTxListHash(p.txs), uint64(p.prep), p.sig, p.data, rec))
}

type vErr struct{}

func (*vErr) Error() string { return "verif: rejected" }

type vKey struct{ idx int }

type vTx struct{ h vhash }

func (t *vTx) Hash() vhash { return t.h }

// ---------------------------------------------------------------- blocks

// vBlock is what NewBlockFromContext builds: only from ctx.{BlockIndex, PrevHash, Timestamp,
// Nonce, TransactionHashes}. Signature tokens are (vHash(kSig, signer, blockhash), rnd): a
// valid signature for this block by validator i has the first component, and re-signing gives
// a different token (real ECDSA signatures are randomised).
type vBlock struct {
	idx   uint32
	prev  vhash
	ts    uint64
	nonce uint64
	txh   []vhash
	txs   []Transaction[vhash]
	sig   uint64
	env   *vEnv
}

func (b *vBlock) Hash() vhash {
	return vhash(vHash(kBlock, uint64(b.idx), uint64(b.prev), b.ts, b.nonce, vTxListHash(b.txh)))
}
func (b *vBlock) PrevHash() vhash                        { return b.prev }
func (b *vBlock) MerkleRoot() vhash                      { return vhash(vTxListHash(b.txh)) }
func (b *vBlock) Index() uint32                          { return b.idx }
func (b *vBlock) Signature() []byte                      { return vBytesOf(b.sig) }
func (b *vBlock) Transactions() []Transaction[vhash]     { return b.txs }
func (b *vBlock) SetTransactions(t []Transaction[vhash]) { b.txs = t }

func vSigToken(signer int, h vhash) uint64 { return vHash(kSig, uint64(signer), uint64(h)) }

func (b *vBlock) Sign(key PrivateKey) error {
	e := b.env
	e.nSign++
	e.lastSignHash = b.Hash()
	if e.want("C07") {
		// final block is signed only after the pre-block callback succeeded (C07.O3)
		vAssert("C07.O3.sign", !e.amevOn() || e.d.preBlockProcessed)
	}
	if e.want("C13") {
		vAssert("C13.nosign", !e.d.Context.WatchOnly())
	}
	if vUF(kSignErr, uint64(b.Hash())) != 0 {
		return &vErr{}
	}
	b.sig = vSigToken(key.(*vKey).idx, b.Hash()) | uint64(vU32("sigrnd"))<<32
	return nil
}

func (b *vBlock) Verify(key PublicKey, sign []byte) error {
	if vU64Of(sign)&0xffffffff == vSigToken(key.(*vKey).idx, b.Hash()) {
		return nil
	}
	return &vErr{}
}

type vPreBlock struct {
	idx   uint32
	prev  vhash
	ts    uint64
	nonce uint64
	txh   []vhash
	txs   []Transaction[vhash]
	data  uint64
	env   *vEnv
}

func (b *vPreBlock) hash() vhash {
	return vhash(vHash(kPreBlock, uint64(b.idx), uint64(b.prev), b.ts, b.nonce, vTxListHash(b.txh)))
}
func vDataToken(signer int, h vhash) uint64 { return vHash(kPreData, uint64(signer), uint64(h)) }

func (b *vPreBlock) Data() []byte { return vBytesOf(b.data) }
func (b *vPreBlock) SetData(key PrivateKey) error {
	e := b.env
	e.nSetData++
	if e.want("C13") {
		vAssert("C13.nosetdata", !e.d.Context.WatchOnly())
	}
	if e.want("C07") {
		vAssert("C07.O4.nosetdata", e.amevOn())
	}
	if vUF(kSetDataErr, uint64(b.hash())) != 0 {
		return &vErr{}
	}
	b.data = vDataToken(key.(*vKey).idx, b.hash()) | uint64(vU32("datarnd"))<<32
	return nil
}
func (b *vPreBlock) Verify(key PublicKey, data []byte) error {
	if vU64Of(data)&0xffffffff == vDataToken(key.(*vKey).idx, b.hash()) {
		return nil
	}
	return &vErr{}
}
func (b *vPreBlock) Transactions() []Transaction[vhash]     { return b.txs }
func (b *vPreBlock) SetTransactions(t []Transaction[vhash]) { b.txs = t }

// ---------------------------------------------------------------- recovery message

// vRecovery: what the library puts into a recovery message goes into per-validator tables
// (AddPayload; fixed size, so that the message under construction stays one symbolic state);
// what a received recovery message yields comes from lists the harness fills with arbitrary
// payloads (adversarial sender) or with the tables' content (faithful transfer).
const vMaxN = 16

type vRecovery struct {
	id         uint64
	prepReq    ConsensusPayload[vhash]
	prepTab    [vMaxN]ConsensusPayload[vhash]
	cvTab      [vMaxN]ConsensusPayload[vhash]
	pcTab      [vMaxN]ConsensusPayload[vhash]
	cTab       [vMaxN]ConsensusPayload[vhash]
	prepResps  []ConsensusPayload[vhash]
	chViews    []ConsensusPayload[vhash]
	preCommits []ConsensusPayload[vhash]
	commits    []ConsensusPayload[vhash]
}

func (r *vRecovery) AddPayload(p ConsensusPayload[vhash]) {
	i := int(p.ValidatorIndex())
	switch p.Type() {
	case PrepareRequestType:
		r.prepReq = p
	case PrepareResponseType:
		r.prepTab[i] = p
	case ChangeViewType:
		r.cvTab[i] = p
	case PreCommitType:
		r.pcTab[i] = p
	case CommitType:
		r.cTab[i] = p
	}
}
func (r *vRecovery) GetPrepareRequest(p ConsensusPayload[vhash], validators []PublicKey, primary uint16) ConsensusPayload[vhash] {
	return r.prepReq
}
func (r *vRecovery) GetPrepareResponses(p ConsensusPayload[vhash], validators []PublicKey) []ConsensusPayload[vhash] {
	return r.prepResps
}
func (r *vRecovery) GetChangeViews(p ConsensusPayload[vhash], validators []PublicKey) []ConsensusPayload[vhash] {
	return r.chViews
}
func (r *vRecovery) GetPreCommits(p ConsensusPayload[vhash], validators []PublicKey) []ConsensusPayload[vhash] {
	return r.preCommits
}
func (r *vRecovery) GetCommits(p ConsensusPayload[vhash], validators []PublicKey) []ConsensusPayload[vhash] {
	return r.commits
}
func (r *vRecovery) PreparationHash() *vhash { return nil }

// ---------------------------------------------------------------- environment

const (
	evBroadcast = iota + 1
	evProcessBlock
	evProcessPreBlock
	evTimerReset
	evTimerExtend
	evNewBlock
	evNewPreBlock
	evRequestTx
	evSubscribe
	evStopTxFlow
)

type vEvent struct {
	kind int
	typ  MessageType
	p    *vPayload
	h    uint32
	v    byte
	d    time.Duration
	ok   bool
	hash vhash
}

type vEnv struct {
	n         int
	my        int
	watchFlag bool
	amevCfg   bool
	amevH     int64
	maxCfg    bool
	height    uint32
	tip       vhash
	tpb       time.Duration
	maxTpb    time.Duration
	tsInc     uint64
	keys      []PublicKey
	d         *DBFT[vhash]
	log       []vEvent
	clock     uint64
	// timer model
	th    uint32
	tv    byte
	td    time.Duration
	armed bool
	// counters
	nSign, nSetData, nProcessBlockOK, nProcessPreOK, nProcessBlock, nProcessPre int
	nBroadcast, nTimerReset, nTimerExtend, nSubscribe, nRequestTx, nStopTx   int
	nNewBlock, nNewPreBlock                                                  int
	lastSignHash                                                             vhash
	pool                                                                     []Transaction[vhash]
	// pre-state facts the event-time obligations need
	preBlockProcessed, prePreBlockProcessed bool
	preView                                 byte
	preHeight                               uint32
	preOwnCommit, preOwnPreCommit           ConsensusPayload[vhash]
	preOwnPrep                              ConsensusPayload[vhash]
	preHasReq                               bool
	api                                     int
	// what the block verification callbacks saw in this call
	verifiedOK, verifiedPreOK     bool
	verifiedHash, verifiedPreHash vhash
	cached                        []*vPayload
	poolLater                     []Transaction[vhash]
	nGetVerified                  int
	nprTs, nprNonce               uint64
	nprTxs                        []vhash
	nNPR                          int
	cls, preMissing               int
	preAnswerOwed                 bool
	timeoutCurrent, preWatch      bool
}

// kf1: carve-out of known finding KF-1 (DESIGN §7): the proposal of the current height and
// view was not known when this call started, so commits stored earlier were never verified
// (updateExistingPayloads runs before the request is stored).
func (e *vEnv) kf1() bool {
	d := e.d
	return !(e.preHasReq && d.BlockIndex == e.preHeight && d.ViewNumber == e.preView)
}

func (e *vEnv) want(p string) bool { return vWant(p) }

// amevOn: the anti-MEV extension applies at the node's height. Computed by the harness from the
// configured enabling height (the oracle must not ask the library's own predicate).
func (e *vEnv) amevOn() bool {
	return e.amevH >= 0 && uint32(e.amevH) <= e.d.BlockIndex
}

func (e *vEnv) Now() time.Time { return vTime(e.clock) }
func (e *vEnv) Reset(h uint32, v byte, d time.Duration) {
	e.th, e.tv, e.td, e.armed = h, v, d, true
	e.nTimerReset++
	if e.want("C14") {
		e.log = append(e.log, vEvent{kind: evTimerReset, h: h, v: v, d: d})
	}
	if e.want("C10") {
		// durations are computed as timePerBlock << (view+1): claimed for views up to
		// vMaxView+1 (the overflow needs centuries of exponential timeouts, DESIGN §4)
		vAssert("C10.O2.nonneg", d >= 0 || v > vMaxView+1)
		vAssert("C10.O1.epoch", h == e.d.BlockIndex && v == e.d.ViewNumber)
	}
	if e.want("C05") {
		vAssert("C05.O2.notimer", !e.preBlockProcessed || e.api == apiReset || e.api == apiStart)
	}
}
func (e *vEnv) Extend(d time.Duration) {
	e.td += d
	e.nTimerExtend++
	if e.want("C14") {
		e.log = append(e.log, vEvent{kind: evTimerExtend, d: d})
	}
	if e.want("C10") {
		vAssert("C10.O2.extend.nonneg", d >= 0)
	}
	if e.want("C05") {
		vAssert("C05.O2.notimer.extend", !e.preBlockProcessed || e.api == apiReset || e.api == apiStart)
	}
}
func (e *vEnv) Height() uint32      { return e.th }
func (e *vEnv) View() byte          { return e.tv }
func (e *vEnv) C() <-chan time.Time { return nil }

// API ids (harness parameter "api")
const (
	apiChangeView = iota
	apiPrepareRequest
	apiPrepareResponse
	apiCommit
	apiPreCommit
	apiRecoveryRequest
	apiRecoveryMessage
	apiTimeout
	apiTransaction
	apiNewTransaction
	apiReset
	apiStart
)

func vNewEnv(n, my int, amevCfg, maxCfg bool) *vEnv {
	e := &vEnv{n: n, my: my, amevCfg: amevCfg, maxCfg: maxCfg}
	e.keys = make([]PublicKey, n)
	for i := 0; i < n; i++ {
		e.keys[i] = &vKey{idx: i}
	}
	opts := []func(*Config[vhash]){
		WithTimer[vhash](e),
		WithLogger[vhash](zap.NewNop()),
		WithCurrentHeight[vhash](func() uint32 { return e.height }),
		WithCurrentBlockHash[vhash](func() vhash { return e.tip }),
		WithGetValidators[vhash](func(...Transaction[vhash]) []PublicKey { return e.keys }),
		WithTimePerBlock[vhash](func() time.Duration { return e.tpb }),
		WithWatchOnly[vhash](func() bool { return e.watchFlag }),
		WithGetKeyPair[vhash](func([]PublicKey) (int, PrivateKey, PublicKey) {
			if e.my < 0 {
				return -1, nil, nil
			}
			return e.my, e.keys[e.my], e.keys[e.my]
		}),
		WithBroadcast[vhash](e.broadcast),
		WithProcessBlock[vhash](e.processBlock),
		WithVerifyBlock[vhash](func(b Block[vhash]) bool {
			e.verifiedHash = b.Hash()
			e.verifiedOK = vUF(kVerifyBlock, uint64(e.verifiedHash)) != 0
			return e.verifiedOK
		}),
		WithNewBlockFromContext[vhash](func(c *Context[vhash]) Block[vhash] {
			e.nNewBlock++
			if e.want("C07") {
				vAssert("C07.O3.newblock", !e.amevOn() || c.preBlockProcessed)
			}
			if e.want("C15") && c.IsPrimary() {
				// the primary's own block is built from the values it proposed
				req := vpProposal(e.d)
				vAssert("C15.O4.block.proposal", req != nil)
				if req != nil {
					vAssert("C15.O4.block", c.Timestamp == req.ts && c.Nonce == req.nonce && vpSameTxs(c.TransactionHashes, req.txs) && c.BlockIndex == req.height)
				}
			}
			return &vBlock{idx: c.BlockIndex, prev: c.PrevHash, ts: c.Timestamp, nonce: c.Nonce, txh: c.TransactionHashes, env: e}
		}),
		WithRequestTx[vhash](func(h ...vhash) { e.nRequestTx++ }),
		WithStopTxFlow[vhash](func() { e.nStopTx++ }),
		WithGetTx[vhash](func(h vhash) Transaction[vhash] {
			if vUF(kGetTx, uint64(h)) != 0 {
				return &vTx{h: h}
			}
			return nil
		}),
		WithGetVerified[vhash](func() []Transaction[vhash] {
			e.nGetVerified++
			if e.poolLater != nil && e.nGetVerified > 1 {
				return e.poolLater // the pool may change between two readings in one call
			}
			return e.pool
		}),
		WithNewConsensusPayload[vhash](func(c *Context[vhash], t MessageType, m any) ConsensusPayload[vhash] {
			var p *vPayload
			if r, ok := m.(*vRecovery); ok {
				p = &vPayload{rec: r}
			} else {
				p = m.(*vPayload)
			}
			p.typ, p.height, p.view, p.vidx = t, c.BlockIndex, c.ViewNumber, uint16(c.MyIndex)
			return p
		}),
		WithNewPrepareRequest[vhash](func(ts, nonce uint64, h []vhash) PrepareRequest[vhash] {
			e.nprTs, e.nprNonce, e.nprTxs, e.nNPR = ts, nonce, h, e.nNPR+1
			return &vPayload{ts: ts, nonce: nonce, txs: h}
		}),
		WithNewPrepareResponse[vhash](func(h vhash) PrepareResponse[vhash] { return &vPayload{prep: h} }),
		WithNewChangeView[vhash](func(nv byte, r ChangeViewReason, ts uint64) ChangeView {
			return &vPayload{newView: nv, reason: r, ts: ts}
		}),
		WithNewCommit[vhash](func(s []byte) Commit { return &vPayload{sig: vU64Of(s)} }),
		WithNewRecoveryRequest[vhash](func(ts uint64) RecoveryRequest { return &vPayload{ts: ts} }),
		WithNewRecoveryMessage[vhash](func() RecoveryMessage[vhash] { return &vRecovery{} }),
		WithVerifyPrepareRequest[vhash](func(p ConsensusPayload[vhash]) error {
			if vUF(kVerifyPReq, uint64(p.Hash())) != 0 {
				return &vErr{}
			}
			return nil
		}),
		WithVerifyPrepareResponse[vhash](func(p ConsensusPayload[vhash]) error {
			if vUF(kVerifyPResp, uint64(p.Hash())) != 0 {
				return &vErr{}
			}
			return nil
		}),
		WithVerifyCommit[vhash](func(p ConsensusPayload[vhash]) error {
			if vUF(kVerifyCommit, uint64(p.Hash())) != 0 {
				return &vErr{}
			}
			return nil
		}),
	}
	if amevCfg {
		opts = append(opts,
			WithAntiMEVExtensionEnablingHeight[vhash](0),
			WithNewPreBlockFromContext[vhash](func(c *Context[vhash]) PreBlock[vhash] {
				e.nNewPreBlock++
				return &vPreBlock{idx: c.BlockIndex, prev: c.PrevHash, ts: c.Timestamp, nonce: c.Nonce, txh: c.TransactionHashes, env: e}
			}),
			WithProcessPreBlock[vhash](e.processPreBlock),
			WithNewPreCommit[vhash](func(d []byte) PreCommit { return &vPayload{data: vU64Of(d)} }),
			WithVerifyPreBlock[vhash](func(b PreBlock[vhash]) bool {
				e.verifiedPreHash = b.(*vPreBlock).hash()
				e.verifiedPreOK = vUF(kVerifyPre, uint64(e.verifiedPreHash)) != 0
				return e.verifiedPreOK
			}),
			WithVerifyPreCommit[vhash](func(p ConsensusPayload[vhash]) error {
				if vUF(kVerifyPreC, uint64(p.Hash())) != 0 {
					return &vErr{}
				}
				return nil
			}),
		)
	}
	if maxCfg {
		opts = append(opts,
			WithMaxTimePerBlock[vhash](func() time.Duration { return e.maxTpb }),
			WithSubscribeForTxs[vhash](func() { e.nSubscribe++ }),
		)
	}
	d, err := New[vhash](opts...)
	if err != nil {
		panic("verif: invalid config: " + err.Error())
	}
	e.d = d
	e.tsInc = d.Config.TimestampIncrement
	return e
}
