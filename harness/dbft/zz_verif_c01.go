package dbft

// C01 (agreement) is decided compositionally (DESIGN §6 C01): the per-node obligations L1-L5
// are discharged by the step harness on the real code; this file holds the quorum-intersection
// core Q of the composition argument, decided by the solver on the real M()/F().

func vpPop(mask uint16, n int) int {
	c := 0
	for i := 0; i < n; i++ {
		if mask&(1<<uint(i)) != 0 {
			c++
		}
	}
	return c
}

// H_C01_intersect (parameter n = validator count, concrete): for ANY two sets A, B of
// validators with at least M() members each and ANY set Z of at most F() faulty validators,
// some validator outside Z is in both A and B. A is the set of valid commit signers seen by one
// honest node at its ProcessBlock (C02.O1), B the same for another honest node; the common
// honest validator signed both blocks, which L1/L2 (C03) forbid unless the blocks are equal.
func H_C01_intersect() {
	n := vParam("n")
	c := &Context[vhash]{}
	c.Validators = make([]PublicKey, n)
	a, b, z := vU16("setA"), vU16("setB"), vU16("faulty")
	full := uint16(1)<<uint(n) - 1
	vAssume(a&^full == 0 && b&^full == 0 && z&^full == 0)
	vAssume(vpPop(a, n) >= c.M() && vpPop(b, n) >= c.M() && vpPop(z, n) <= c.F())
	vCover("C01.Q.reached")
	vCheck("C01.Q.intersect", a&b&^z != 0)
	// a view change needs M requests: with M-F honest validators locked on a commit, the
	// remaining ones cannot reach M (used by INV.G1 and by the lock argument)
	locked := vU16("locked")
	vAssume(locked&^full == 0 && locked&z == 0 && vpPop(locked, n) >= c.M()-c.F())
	cv := vU16("changeview")
	vAssume(cv&^full == 0 && cv&locked == 0)
	vCheck("C01.Q.lockedblocksview", vpPop(cv, n) < c.M())
}
