package dbft

// C06: quorum arithmetic and primary rotation for EVERY validator count: len(Validators) is a
// solver variable n in [1, 65535], the height a full 32-bit variable, the view an 8-bit one.
// The real N/F/M/GetPrimaryIndex are executed; no element of Validators is touched. One
// obligation per entry, so that each arithmetic query has a clean path condition (a chain of
// previously assumed lemmas made cvc5's integer reasoning time out, see DESIGN §6 C06).

func vC06ctx() (*Context[vhash], int, uint32, byte) {
	n := int(vU16("n"))
	vAssume(n >= 1)
	h := vU32("height")
	v := vU8("view")
	c := &Context[vhash]{}
	c.Validators = vSymLen(n)
	c.BlockIndex = h
	// fields the functions must not depend on
	c.MyIndex = int(vU16("myindex"))
	c.ViewNumber = vU8("curview")
	c.PrimaryIndex = uint(vU16("primaryfield"))
	return c, n, h, v
}

// the successor height without 32-bit wrap-around
func vC06succ(h uint32) uint32 {
	h2 := vU32("height2")
	vAssume(uint64(h2) == uint64(h)+1)
	return h2
}

// O1 F = floor((n-1)/3), M = n-F; O2 any two quorums share more than F validators
// (2M-n >= F+1), a quorum never needs a faulty validator (M <= n-F), M >= 1.
func H_C06_quorum() {
	c, n, _, _ := vC06ctx()
	N, F, M := c.N(), c.F(), c.M()
	vCheck("C06.O1.N", N == n)
	vCheck("C06.O1.Flo", 3*F <= n-1)
	vCheck("C06.O1.Fhi", n-1 < 3*F+3)
	vCheck("C06.O1.Fnonneg", F >= 0)
	vCheck("C06.O1.M", M == n-F)
	vCheck("C06.O2.intersect", 2*M-n >= F+1)
	vCheck("C06.O2.Mpos", M >= 1)
	vCheck("C06.O2.Mhonest", M <= n-F)
	vCover("C06.quorum")
}

// O3 always a valid index; closed form (h-v) mod n; p(h,0) = h mod n. The height is
// unconstrained, so the 32-bit boundary values are inside the domain (O5).
func H_C06_range() {
	c, n, h, v := vC06ctx()
	p := c.GetPrimaryIndex(v)
	vCheck("C06.O3.range", p < uint(n))
	want := (int64(h) - int64(v)) % int64(n)
	if want < 0 {
		want += int64(n)
	}
	vCheck("C06.O4.closedform", int64(p) == want)
	vCover("C06.range")
}

// p(h, 0) = h mod n
func H_C06_view0() {
	c, n, h, _ := vC06ctx()
	p := c.GetPrimaryIndex(0)
	vCheck("C06.O4.view0", uint64(p) == uint64(h)%uint64(n))
	vCover("C06.view0")
}

func H_C06_boundary() {
	c, n, _, v := vC06ctx()
	c.BlockIndex = 0xffffffff
	vCheck("C06.O5.maxheight", c.GetPrimaryIndex(v) < uint(n))
	c.BlockIndex = 0
	vCheck("C06.O5.zeroheight", c.GetPrimaryIndex(v) < uint(n))
	c.BlockIndex = 0x80000000
	vCheck("C06.O5.signheight", c.GetPrimaryIndex(v) < uint(n))
	vCover("C06.boundary")
}

// rotation: the next view's primary is the previous validator
func H_C06_nextview() {
	c, n, _, v := vC06ctx()
	vAssume(v < 255)
	p := c.GetPrimaryIndex(v)
	p1 := c.GetPrimaryIndex(v + 1)
	vCheck("C06.O4.nextview", int(p1) == (int(p)+n-1)%n)
	vCover("C06.nextview")
}

func H_C06_prevview() {
	c, n, _, v := vC06ctx()
	vAssume(v < 255)
	p := c.GetPrimaryIndex(v)
	p1 := c.GetPrimaryIndex(v + 1)
	vCheck("C06.O4.prevview", int(p) == (int(p1)+1)%n)
	vCover("C06.prevview")
}

// rotation: the next height's primary is the next validator
func H_C06_nextheight() {
	c, n, h, v := vC06ctx()
	p := c.GetPrimaryIndex(v)
	c.BlockIndex = vC06succ(h)
	p2 := c.GetPrimaryIndex(v)
	vCheck("C06.O4.nextheight", int(p2) == (int(p)+1)%n)
	vCover("C06.nextheight")
}

// p(h+1, v+1) == p(h, v)
func H_C06_shift() {
	c, _, h, v := vC06ctx()
	vAssume(v < 255)
	p := c.GetPrimaryIndex(v)
	c.BlockIndex = vC06succ(h)
	vCheck("C06.O4.shift", c.GetPrimaryIndex(v+1) == p)
	vCover("C06.shift")
}

// every validator exactly once over n consecutive views: two views less than n apart have
// different primaries (n distinct values in [0,n) are a permutation)
func H_C06_distinctviews() {
	c, n, _, v := vC06ctx()
	p := c.GetPrimaryIndex(v)
	v2 := vU8("view2")
	vAssume(v2 > v && int(v2-v) < n)
	q := c.GetPrimaryIndex(v2)
	vCheck("C06.O4.distinctviews", q != p)
	vCover("C06.distinctviews")
}

// ... and over n consecutive heights
func H_C06_distinctheights() {
	c, n, h, v := vC06ctx()
	p := c.GetPrimaryIndex(v)
	h2 := vU32("height2")
	vAssume(h2 > h && uint64(h2)-uint64(h) < uint64(n))
	c.BlockIndex = h2
	q := c.GetPrimaryIndex(v)
	vCheck("C06.O4.distinctheights", q != p)
	vCover("C06.distinctheights")
}

// identical on every node: a context that differs in every other field agrees
func H_C06_samenode() {
	c, n, h, v := vC06ctx()
	p := c.GetPrimaryIndex(v)
	c2 := &Context[vhash]{}
	c2.Validators = vSymLen(n)
	c2.BlockIndex = h
	c2.MyIndex = int(vU16("myindex2"))
	c2.ViewNumber = vU8("curview2")
	c2.PrimaryIndex = uint(vU16("primaryfield2"))
	vCheck("C06.O4.samenode", c2.GetPrimaryIndex(v) == p)
	vCheck("C06.O4.samenode.F", c2.F() == c.F())
	vCheck("C06.O4.samenode.M", c2.M() == c.M())
	vCover("C06.samenode")
}

// concrete validator counts (thorough cross-check on the bit-vector back end): param n
func H_C06_concrete() {
	n := vParam("n")
	h := vU32("height")
	v := vU8("view")
	c := &Context[vhash]{}
	c.Validators = make([]PublicKey, n)
	c.BlockIndex = h
	p := c.GetPrimaryIndex(v)
	vCheck("C06.O3.range", p < uint(n))
	F, M := c.F(), c.M()
	vCheck("C06.O1.F", F == (n-1)/3)
	vCheck("C06.O1.M", M == n-F)
	vCheck("C06.O2.intersect", 2*M-n >= F+1)
	if v < 255 {
		vCheck("C06.O4.nextview", int(c.GetPrimaryIndex(v+1)) == (int(p)+n-1)%n)
	}
	vCover("C06.concrete")
}
