package main

import (
	"bufio"
	"fmt"
	"io"
	"os/exec"
	"strings"
	"time"
)

// Solver is one long-lived SMT-LIB2 process. Every hash-consed term is emitted once as a 0-ary
// define-fun at level 0; queries are check-sat-assuming over path-condition conjuncts, so nothing
// is ever pushed or popped and any state can be resumed at any time (DESIGN §3.4b).
type Solver struct {
	kind    string
	cmd     *exec.Cmd
	in      io.WriteCloser
	out     *bufio.Reader
	emitted map[int]bool
	ufs     map[string]bool
	vars    map[string]bool
	log     io.Writer
	stats   *SolverStats
	dead    bool
	// one-shot mode (kind "cvc5-int-oneshot"): every query is a fresh process fed with the
	// definitions the query needs, the path condition as ASSERTIONS and a plain (check-sat).
	// cvc5's integer translation decides div/mod-by-constant lemmas in milliseconds this way
	// and not at all under check-sat-assuming (measured: DESIGN §3.4c).
	oneshot   bool
	timeoutMs int
	script    []string
}

type SolverStats struct {
	Queries, Sat, Unsat, Unknown, Errors int
	Dur                                  time.Duration
	ByBackend                            map[string]int
}

func solverCommand(kind string, timeoutMs int) (string, []string, []string) {
	switch kind {
	case "z3":
		return "z3", []string{"-in"}, []string{"(set-option :global-declarations true)", fmt.Sprintf("(set-option :timeout %d)", timeoutMs)}
	case "z3-new":
		return "z3-new", []string{"-in"}, []string{"(set-option :global-declarations true)", fmt.Sprintf("(set-option :timeout %d)", timeoutMs)}
	case "cvc5":
		return "cvc5", []string{"--incremental", "--produce-models", "--lang=smt2", fmt.Sprintf("--tlimit-per=%d", timeoutMs)}, []string{"(set-logic ALL)"}
	case "cvc5-int":
		return "cvc5", []string{"--incremental", "--produce-models", "--lang=smt2", "--solve-bv-as-int=sum", fmt.Sprintf("--tlimit-per=%d", timeoutMs)}, []string{"(set-logic ALL)"}
	}
	panic("unknown solver kind " + kind)
}

func NewSolver(kind string, timeoutMs int, logw io.Writer, stats *SolverStats) *Solver {
	if kind == "cvc5-int-oneshot" {
		return &Solver{kind: kind, oneshot: true, timeoutMs: timeoutMs, emitted: map[int]bool{}, ufs: map[string]bool{}, vars: map[string]bool{}, log: logw, stats: stats}
	}
	bin, args, prelude := solverCommand(kind, timeoutMs)
	cmd := exec.Command(bin, args...)
	in, _ := cmd.StdinPipe()
	out, _ := cmd.StdoutPipe()
	cmd.Stderr = cmd.Stdout
	if err := cmd.Start(); err != nil {
		panic(err)
	}
	s := &Solver{kind: kind, cmd: cmd, in: in, out: bufio.NewReaderSize(out, 1<<20), emitted: map[int]bool{}, ufs: map[string]bool{}, vars: map[string]bool{}, log: logw, stats: stats}
	for _, p := range prelude {
		s.send(p)
	}
	return s
}

func (s *Solver) Close() {
	if s == nil || s.dead || s.oneshot {
		return
	}
	s.dead = true
	s.in.Close()
	s.cmd.Process.Kill()
	s.cmd.Wait()
}

func (s *Solver) send(c string) {
	if s.oneshot {
		s.script = append(s.script, c)
		return
	}
	if s.log != nil {
		fmt.Fprintln(s.log, c)
	}
	io.WriteString(s.in, c+"\n")
}

func (s *Solver) emit(t *Term) {
	if s.emitted[t.id] {
		return
	}
	s.emitted[t.id] = true
	for _, a := range t.args {
		s.emit(a)
	}
	switch t.op {
	case "const":
		return
	case "var":
		if !s.vars[t.name] {
			s.vars[t.name] = true
			s.send(fmt.Sprintf("(declare-const %s %s)", t.name, sortStr(t.w)))
		}
		return
	case "uf":
		if !s.ufs[t.name] {
			s.ufs[t.name] = true
			var as []string
			for _, a := range t.args {
				as = append(as, sortStr(a.w))
			}
			s.send(fmt.Sprintf("(declare-fun %s (%s) %s)", t.name, strings.Join(as, " "), sortStr(t.w)))
		}
		s.send(fmt.Sprintf("(define-fun t%d () %s %s)", t.id, sortStr(t.w), t.body()))
		if t.p1 == 1 {
			// injectivity through inverse functions: inv_i(f(a0..an)) = a_i (linear, level 0)
			for i, a := range t.args {
				inv := fmt.Sprintf("%s_inv%d", t.name, i)
				if !s.ufs[inv] {
					s.ufs[inv] = true
					s.send(fmt.Sprintf("(declare-fun %s (%s) %s)", inv, sortStr(t.w), sortStr(a.w)))
				}
				s.send(fmt.Sprintf("(assert (= (%s t%d) %s))", inv, t.id, a.ref()))
			}
		}
		return
	}
	s.send(fmt.Sprintf("(define-fun t%d () %s %s)", t.id, sortStr(t.w), t.body()))
}

func (s *Solver) readLine() string {
	l, err := s.out.ReadString('\n')
	if err != nil {
		s.dead = true
		return "(error \"solver died: " + err.Error() + "\")"
	}
	return strings.TrimSpace(l)
}

// readSexp reads a complete parenthesised answer (may span lines).
func (s *Solver) readSexp() string {
	var sb strings.Builder
	depth := 0
	started := false
	for {
		l := s.readLine()
		if s.dead {
			return l
		}
		sb.WriteString(l)
		sb.WriteString(" ")
		inStr := false
		for _, c := range l {
			switch {
			case c == '"':
				inStr = !inStr
			case inStr:
			case c == '(':
				depth++
				started = true
			case c == ')':
				depth--
			}
		}
		if (started && depth <= 0) || (!started && strings.TrimSpace(l) != "") {
			return sb.String()
		}
	}
}

// CheckPC decides satisfiability of the conjunction of pc (and extra, if not nil). The answer is
// "sat", "unsat" or "unknown"; any error line counts as unknown.
func (s *Solver) runOneShot(tail string) string {
	cmd := exec.Command("cvc5", "--lang=smt2", "--produce-models", "--solve-bv-as-int=sum", fmt.Sprintf("--tlimit=%d", s.timeoutMs))
	cmd.Stdin = strings.NewReader("(set-logic ALL)\n" + strings.Join(s.script, "\n") + "\n" + tail + "\n")
	out, _ := cmd.CombinedOutput()
	return string(out)
}

func (s *Solver) checkOneShot(pc []*Term, extra *Term) string {
	s.script, s.emitted, s.ufs, s.vars = nil, map[int]bool{}, map[string]bool{}, map[string]bool{}
	for _, c := range pc {
		if c.isTrue() {
			continue
		}
		s.emit(c)
		s.send("(assert " + c.ref() + ")")
	}
	if extra != nil {
		s.emit(extra)
		s.send("(assert " + extra.ref() + ")")
	}
	t0 := time.Now()
	out := s.runOneShot("(check-sat)")
	s.stats.Dur += time.Since(t0)
	s.stats.Queries++
	if s.stats.ByBackend == nil {
		s.stats.ByBackend = map[string]int{}
	}
	s.stats.ByBackend[s.kind]++
	r := strings.TrimSpace(out)
	if strings.Contains(out, "(error") {
		s.stats.Errors++
		r = "unknown"
	}
	switch r {
	case "sat":
		s.stats.Sat++
	case "unsat":
		s.stats.Unsat++
	default:
		s.stats.Unknown++
		r = "unknown"
	}
	return r
}

func (s *Solver) CheckPC(pc []*Term, extra *Term) string {
	if s.oneshot {
		return s.checkOneShot(pc, extra)
	}
	if s.dead {
		return "unknown"
	}
	var refs []string
	for _, c := range pc {
		if c.isTrue() {
			continue
		}
		s.emit(c)
		refs = append(refs, c.ref())
	}
	if extra != nil {
		s.emit(extra)
		refs = append(refs, extra.ref())
	}
	t0 := time.Now()
	s.send("(check-sat-assuming (" + strings.Join(refs, " ") + "))")
	r := s.readLine()
	for r == "" && !s.dead {
		r = s.readLine()
	}
	s.stats.Dur += time.Since(t0)
	s.stats.Queries++
	if s.stats.ByBackend == nil {
		s.stats.ByBackend = map[string]int{}
	}
	s.stats.ByBackend[s.kind]++
	switch r {
	case "sat":
		s.stats.Sat++
	case "unsat":
		s.stats.Unsat++
	default:
		if strings.HasPrefix(r, "(error") {
			s.stats.Errors++
		}
		s.stats.Unknown++
		r = "unknown"
	}
	return r
}

// Values returns the model values of ts after a sat answer (terms must be Bool or BitVec).
func (s *Solver) Values(ts []*Term) ([]uint64, error) {
	if s.oneshot {
		var refs []string
		for _, t := range ts {
			s.emit(t)
			refs = append(refs, t.ref())
		}
		out := s.runOneShot("(check-sat)\n(get-value (" + strings.Join(refs, " ") + "))")
		i := strings.Index(out, "(")
		if !strings.HasPrefix(strings.TrimSpace(out), "sat") || i < 0 || strings.Contains(out, "(error") {
			return nil, fmt.Errorf("one-shot get-value: %s", tail(out, 3))
		}
		return parseValues(out[i:], len(ts))
	}
	res := make([]uint64, len(ts))
	const chunk = 200
	for lo := 0; lo < len(ts); lo += chunk {
		hi := lo + chunk
		if hi > len(ts) {
			hi = len(ts)
		}
		var refs []string
		for _, t := range ts[lo:hi] {
			s.emit(t)
			refs = append(refs, t.ref())
		}
		s.send("(get-value (" + strings.Join(refs, " ") + "))")
		ans := s.readSexp()
		if strings.Contains(ans, "(error") {
			return nil, fmt.Errorf("get-value: %s", ans)
		}
		vals, err := parseValues(ans, hi-lo)
		if err != nil {
			return nil, fmt.Errorf("get-value parse: %v in %q", err, ans)
		}
		copy(res[lo:hi], vals)
	}
	return res, nil
}

// parseValues parses "((e1 v1) (e2 v2) ...)" and returns the values in order.
func parseValues(ans string, n int) ([]uint64, error) {
	toks := tokenize(ans)
	pos := 0
	var parse func() (interface{}, error)
	parse = func() (interface{}, error) {
		if pos >= len(toks) {
			return nil, fmt.Errorf("eof")
		}
		t := toks[pos]
		pos++
		if t == "(" {
			var l []interface{}
			for pos < len(toks) && toks[pos] != ")" {
				e, err := parse()
				if err != nil {
					return nil, err
				}
				l = append(l, e)
			}
			pos++
			return l, nil
		}
		return t, nil
	}
	top, err := parse()
	if err != nil {
		return nil, err
	}
	l, ok := top.([]interface{})
	if !ok || len(l) != n {
		return nil, fmt.Errorf("expected %d pairs", n)
	}
	out := make([]uint64, n)
	for i, p := range l {
		pl, ok := p.([]interface{})
		if !ok || len(pl) != 2 {
			return nil, fmt.Errorf("bad pair")
		}
		v, err := valueOf(pl[1])
		if err != nil {
			return nil, err
		}
		out[i] = v
	}
	return out, nil
}

func valueOf(e interface{}) (uint64, error) {
	switch v := e.(type) {
	case string:
		switch {
		case v == "true":
			return 1, nil
		case v == "false":
			return 0, nil
		case strings.HasPrefix(v, "#x"):
			var x uint64
			_, err := fmt.Sscanf(v[2:], "%x", &x)
			return x, err
		case strings.HasPrefix(v, "#b"):
			var x uint64
			for _, c := range v[2:] {
				x = x<<1 | uint64(c-'0')
			}
			return x, nil
		}
	case []interface{}:
		// (_ bv123 64)
		if len(v) == 3 {
			if s, ok := v[1].(string); ok && strings.HasPrefix(s, "bv") {
				var x uint64
				_, err := fmt.Sscanf(s[2:], "%d", &x)
				return x, err
			}
		}
	}
	return 0, fmt.Errorf("unrecognised value %v", e)
}

func tokenize(s string) []string {
	var toks []string
	cur := ""
	flush := func() {
		if cur != "" {
			toks = append(toks, cur)
			cur = ""
		}
	}
	for _, c := range s {
		switch c {
		case '(', ')':
			flush()
			toks = append(toks, string(c))
		case ' ', '\t', '\n', '\r':
			flush()
		default:
			cur += string(c)
		}
	}
	flush()
	return toks
}
