package main

// Hash-consed SMT terms (bit-vectors and Booleans). One TB per executor, so executors can run
// in parallel goroutines.

import (
	"fmt"
	"strings"
)

// Term is a hash-consed SMT term. w==0 means Bool.
type Term struct {
	id     int
	op     string
	args   []*Term
	w      int
	val    uint64
	name   string
	p1, p2 int
}

// TB is a term builder: hash-consing table plus counters.
type TB struct {
	termTab map[string]*Term
	termSeq int
	varSeq  int
}

func newTB() *TB { return &TB{termTab: map[string]*Term{}} }

func key(op string, w int, val uint64, name string, p1, p2 int, args []*Term) string {
	var sb strings.Builder
	fmt.Fprintf(&sb, "%s|%d|%d|%s|%d|%d", op, w, val, name, p1, p2)
	for _, a := range args {
		fmt.Fprintf(&sb, "|%d", a.id)
	}
	return sb.String()
}

func (tb *TB) mk(op string, w int, val uint64, name string, p1, p2 int, args ...*Term) *Term {
	k := key(op, w, val, name, p1, p2, args)
	if t, ok := tb.termTab[k]; ok {
		return t
	}
	tb.termSeq++
	t := &Term{id: tb.termSeq, op: op, args: args, w: w, val: val, name: name, p1: p1, p2: p2}
	tb.termTab[k] = t
	return t
}

func mask(w int) uint64 {
	if w >= 64 {
		return ^uint64(0)
	}
	return (uint64(1) << uint(w)) - 1
}

func (tb *TB) mkConst(w int, v uint64) *Term { return tb.mk("const", w, v&mask(w), "", 0, 0) }
func (tb *TB) mkBool(b bool) *Term {
	if b {
		return tb.mk("const", 0, 1, "", 0, 0)
	}
	return tb.mk("const", 0, 0, "", 0, 0)
}


func (tb *TB) mkVar(tag string, w int) *Term {
	tb.varSeq++
	return tb.mk("var", w, 0, fmt.Sprintf("%s_%d", sanitize(tag), tb.varSeq), 0, 0)
}

func sanitize(s string) string {
	var sb strings.Builder
	for _, c := range s {
		if (c >= 'a' && c <= 'z') || (c >= 'A' && c <= 'Z') || (c >= '0' && c <= '9') || c == '_' {
			sb.WriteRune(c)
		} else {
			sb.WriteRune('_')
		}
	}
	return sb.String()
}

func (t *Term) isConst() bool { return t.op == "const" }
func (t *Term) isTrue() bool  { return t.op == "const" && t.w == 0 && t.val == 1 }
func (t *Term) isFalse() bool { return t.op == "const" && t.w == 0 && t.val == 0 }

func (tb *TB) mkNot(a *Term) *Term {
	if a.isConst() {
		return tb.mkBool(a.val == 0)
	}
	if a.op == "not" {
		return a.args[0]
	}
	return tb.mk("not", 0, 0, "", 0, 0, a)
}

func (tb *TB) mkAnd(a, b *Term) *Term {
	if a.isFalse() || b.isFalse() {
		return tb.mkBool(false)
	}
	if a.isTrue() {
		return b
	}
	if b.isTrue() {
		return a
	}
	if a == b {
		return a
	}
	if (a.op == "not" && a.args[0] == b) || (b.op == "not" && b.args[0] == a) {
		return tb.mkBool(false)
	}
	return tb.mk("and", 0, 0, "", 0, 0, a, b)
}

func (tb *TB) mkOr(a, b *Term) *Term {
	if a.isTrue() || b.isTrue() {
		return tb.mkBool(true)
	}
	if a.isFalse() {
		return b
	}
	if b.isFalse() {
		return a
	}
	if a == b {
		return a
	}
	if (a.op == "not" && a.args[0] == b) || (b.op == "not" && b.args[0] == a) {
		return tb.mkBool(true)
	}
	return tb.mk("or", 0, 0, "", 0, 0, a, b)
}

func (tb *TB) mkIte(c, a, b *Term) *Term {
	if c.isTrue() {
		return a
	}
	if c.isFalse() {
		return b
	}
	if a == b {
		return a
	}
	if a.w == 0 {
		if a.isTrue() && b.isFalse() {
			return c
		}
		if a.isFalse() && b.isTrue() {
			return tb.mkNot(c)
		}
	}
	return tb.mk("ite", a.w, 0, "", 0, 0, c, a, b)
}

func (tb *TB) mkEq(a, b *Term) *Term {
	if a == b {
		return tb.mkBool(true)
	}
	if a.isConst() && b.isConst() {
		return tb.mkBool(a.val == b.val)
	}
	if a.w != b.w {
		panic(fmt.Sprintf("mkEq width mismatch %d %d", a.w, b.w))
	}
	if a.w == 0 {
		if a.isConst() {
			a, b = b, a
		}
		if b.isTrue() {
			return a
		}
		if b.isFalse() {
			return tb.mkNot(a)
		}
	}
	if a.id > b.id {
		a, b = b, a
	}
	return tb.mk("=", 0, 0, "", 0, 0, a, b)
}

func sx(v uint64, w int) int64 {
	if w >= 64 {
		return int64(v)
	}
	if v&(uint64(1)<<uint(w-1)) != 0 {
		return int64(v | ^mask(w))
	}
	return int64(v)
}

// mkBin builds a bit-vector binary operation (SMT-LIB op names).
func (tb *TB) mkBin(op string, a, b *Term) *Term {
	if a.w != b.w {
		panic(fmt.Sprintf("mkBin %s width mismatch %d %d", op, a.w, b.w))
	}
	w := a.w
	if a.isConst() && b.isConst() {
		x, y := a.val, b.val
		switch op {
		case "bvadd":
			return tb.mkConst(w, x+y)
		case "bvsub":
			return tb.mkConst(w, x-y)
		case "bvmul":
			return tb.mkConst(w, x*y)
		case "bvand":
			return tb.mkConst(w, x&y)
		case "bvor":
			return tb.mkConst(w, x|y)
		case "bvxor":
			return tb.mkConst(w, x^y)
		case "bvshl":
			if y >= uint64(w) {
				return tb.mkConst(w, 0)
			}
			return tb.mkConst(w, x<<y)
		case "bvlshr":
			if y >= uint64(w) {
				return tb.mkConst(w, 0)
			}
			return tb.mkConst(w, x>>y)
		case "bvashr":
			if y >= uint64(w) {
				y = uint64(w - 1)
			}
			return tb.mkConst(w, uint64(sx(x, w)>>y))
		case "bvudiv":
			if y != 0 {
				return tb.mkConst(w, x/y)
			}
		case "bvurem":
			if y != 0 {
				return tb.mkConst(w, x%y)
			}
		case "bvsdiv":
			if y != 0 {
				return tb.mkConst(w, uint64(sx(x, w)/sx(y, w)))
			}
		case "bvsrem":
			if y != 0 {
				return tb.mkConst(w, uint64(sx(x, w)%sx(y, w)))
			}
		}
	}
	if b.isConst() && b.val == 0 {
		switch op {
		case "bvadd", "bvsub", "bvor", "bvxor", "bvshl", "bvlshr", "bvashr":
			return a
		}
	}
	if a.isConst() && a.val == 0 {
		switch op {
		case "bvadd", "bvor", "bvxor":
			return b
		}
	}
	return tb.mk(op, w, 0, "", 0, 0, a, b)
}

func (tb *TB) mkCmp(op string, a, b *Term) *Term {
	if a.w != b.w {
		panic(fmt.Sprintf("mkCmp %s width mismatch %d %d", op, a.w, b.w))
	}
	if a.isConst() && b.isConst() {
		x, y := a.val, b.val
		sxv, syv := sx(x, a.w), sx(y, a.w)
		switch op {
		case "bvult":
			return tb.mkBool(x < y)
		case "bvule":
			return tb.mkBool(x <= y)
		case "bvugt":
			return tb.mkBool(x > y)
		case "bvuge":
			return tb.mkBool(x >= y)
		case "bvslt":
			return tb.mkBool(sxv < syv)
		case "bvsle":
			return tb.mkBool(sxv <= syv)
		case "bvsgt":
			return tb.mkBool(sxv > syv)
		case "bvsge":
			return tb.mkBool(sxv >= syv)
		}
	}
	return tb.mk(op, 0, 0, "", 0, 0, a, b)
}

func (tb *TB) mkExtract(hi, lo int, a *Term) *Term {
	if hi == a.w-1 && lo == 0 {
		return a
	}
	if a.isConst() {
		return tb.mkConst(hi-lo+1, a.val>>uint(lo))
	}
	return tb.mk("extract", hi-lo+1, 0, "", hi, lo, a)
}

func (tb *TB) mkZext(to int, a *Term) *Term {
	if to == a.w {
		return a
	}
	if a.isConst() {
		return tb.mkConst(to, a.val)
	}
	return tb.mk("zext", to, 0, "", to-a.w, 0, a)
}

func (tb *TB) mkSext(to int, a *Term) *Term {
	if to == a.w {
		return a
	}
	if a.isConst() {
		return tb.mkConst(to, uint64(sx(a.val, a.w)))
	}
	return tb.mk("sext", to, 0, "", to-a.w, 0, a)
}

func (tb *TB) mkNeg(a *Term) *Term { return tb.mkBin("bvsub", tb.mkConst(a.w, 0), a) }
func (tb *TB) mkBvNot(a *Term) *Term {
	if a.isConst() {
		return tb.mkConst(a.w, ^a.val)
	}
	return tb.mk("bvnot", a.w, 0, "", 0, 0, a)
}

func (tb *TB) mkUF(name string, w int, args ...*Term) *Term {
	return tb.mk("uf", w, 0, name, 0, 0, args...)
}

func sortStr(w int) string {
	if w == 0 {
		return "Bool"
	}
	return fmt.Sprintf("(_ BitVec %d)", w)
}

func (t *Term) ref() string {
	switch t.op {
	case "const":
		if t.w == 0 {
			if t.val == 1 {
				return "true"
			}
			return "false"
		}
		return fmt.Sprintf("(_ bv%d %d)", t.val, t.w)
	case "var":
		return t.name
	}
	return fmt.Sprintf("t%d", t.id)
}

func (t *Term) body() string {
	a := make([]string, len(t.args))
	for i, x := range t.args {
		a[i] = x.ref()
	}
	switch t.op {
	case "extract":
		return fmt.Sprintf("((_ extract %d %d) %s)", t.p1, t.p2, a[0])
	case "zext":
		return fmt.Sprintf("((_ zero_extend %d) %s)", t.p1, a[0])
	case "sext":
		return fmt.Sprintf("((_ sign_extend %d) %s)", t.p1, a[0])
	case "uf":
		if len(a) == 0 {
			return t.name
		}
		return fmt.Sprintf("(%s %s)", t.name, strings.Join(a, " "))
	}
	return fmt.Sprintf("(%s %s)", t.op, strings.Join(a, " "))
}
