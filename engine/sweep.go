package main

import (
	"flag"
	"fmt"
	"os"
	"sort"
	"strconv"
	"strings"
)

func parseInts(s string) []int {
	var r []int
	for _, f := range strings.Split(s, ",") {
		if f == "" {
			continue
		}
		v, _ := strconv.Atoi(f)
		r = append(r, v)
	}
	return r
}

// cmdSweep: development aid - runs a grid of step-harness cells and prints one line per job.
func cmdSweep(args []string) int {
	fs := flag.NewFlagSet("sweep", flag.ExitOnError)
	n := fs.Int("n", 4, "validators")
	roles := fs.String("roles", "0,1,2,-1", "own indices")
	amev := fs.String("amev", "0", "")
	mx := fs.String("maxtpb", "0", "")
	req := fs.String("req", "0,1", "")
	tx := fs.String("tx", "0:0", "ntx:txmask,...")
	apis := fs.String("apis", "0,1,2,3,4,5,7,8,9", "")
	extra := fs.String("extra", "", "extra params k=v,...")
	want := fs.String("want", "", "")
	budget := fs.Int("budget", 300, "")
	fs.Parse(args)
	var txc [][2]int
	for _, t := range strings.Split(*tx, ",") {
		p := strings.Split(t, ":")
		a, _ := strconv.Atoi(p[0])
		b, _ := strconv.Atoi(p[1])
		txc = append(txc, [2]int{a, b})
	}
	var w []string
	if *want != "" {
		w = strings.Split(*want, ",")
	}
	jobs := stepSweep(*n, parseInts(*roles), parseInts(*amev), parseInts(*mx), parseInts(*req), txc, parseInts(*apis), w, *budget)
	for _, j := range jobs {
		for k, v := range parseParams(*extra) {
			j.Params[k] = v
		}
	}
	p, err := loadProgram(".")
	if err != nil {
		fmt.Fprintln(os.Stderr, err)
		return 2
	}
	res := runJobs(p, jobs, numWorkers(), false)
	for i, r := range res {
		var bad []string
		for id, a := range r.Asserts {
			if a.Sat > 0 {
				bad = append(bad, fmt.Sprintf("%s(sat %d/%d)", id, a.Sat, a.Checked))
			}
			if a.Undecided > 0 {
				bad = append(bad, fmt.Sprintf("%s(undecided %d)", id, a.Undecided))
			}
		}
		sort.Strings(bad)
		for k, v := range r.Panics {
			bad = append(bad, fmt.Sprintf("PANIC[%s x%d]", k, v))
		}
		for k, v := range r.Known {
			bad = append(bad, fmt.Sprintf("known:%s x%d", k, v))
		}
		for _, ie := range r.Internal {
			bad = append(bad, "INTERNAL:"+ie)
		}
		if r.Incomplete != "" {
			bad = append(bad, "INCOMPLETE:"+r.Incomplete)
		}
		pp := jobs[i].Params
		fmt.Printf("%-15s my=%2d amev=%d max=%d req=%d tx=%d:%d paths=%4d q=%5d wall=%6.1fs %s\n", apiNames[pp["api"]], pp["my"], pp["amev"], pp["maxtpb"], pp["req"], pp["ntx"], pp["txmask"], r.Paths, r.Solver.Queries, r.WallS, strings.Join(bad, " "))
	}
	return 0
}
