package main

import (
	"encoding/json"
	"flag"
	"fmt"
	"os"
	"path/filepath"
	"runtime"
	"sort"
	"strconv"
	"strings"
	"sync"
	"time"

	"golang.org/x/tools/go/packages"
	"golang.org/x/tools/go/ssa"
	"golang.org/x/tools/go/ssa/ssautil"
)

// repoDir is /repo for every registered check; VERIF_REPO points the engine at a scratch
// worktree when seeded changes are evaluated in parallel (tools/seedtest.sh).
var repoDir = "/repo"

var progressEvery time.Duration

var verifDir = "/verif"

// Program is the SSA of /repo's current working tree with the harness overlay injected.
type Program struct {
	prog  *ssa.Program
	pkgs  map[string]*ssa.Package // by import path
	loadS float64
	files map[string]string // overlay: virtual path -> real path
}

// harness directories (under /verif/harness) and the /repo directories they are injected into
var overlayDirs = map[string]string{
	"dbft":  "",
	"timer": "timer",
	"sim":   "internal/simulation",
}

func overlayFiles() (map[string]string, error) {
	res := map[string]string{}
	for hd, rd := range overlayDirs {
		ents, err := os.ReadDir(filepath.Join(verifDir, "harness", hd))
		if err != nil {
			continue
		}
		for _, e := range ents {
			if e.IsDir() || !strings.HasSuffix(e.Name(), ".go") {
				continue
			}
			res[filepath.Join(repoDir, rd, e.Name())] = filepath.Join(verifDir, "harness", hd, e.Name())
		}
	}
	return res, nil
}

func loadProgram(patterns ...string) (*Program, error) {
	t0 := time.Now()
	files, _ := overlayFiles()
	ov := map[string][]byte{}
	for virt, real := range files {
		if strings.HasSuffix(virt, "_test.go") {
			continue
		}
		b, err := os.ReadFile(real)
		if err != nil {
			return nil, err
		}
		ov[virt] = b
	}
	cfg := &packages.Config{Mode: packages.LoadAllSyntax, Dir: repoDir, Overlay: ov, Env: os.Environ()}
	pkgs, err := packages.Load(cfg, patterns...)
	if err != nil {
		return nil, err
	}
	var errs []string
	packages.Visit(pkgs, nil, func(p *packages.Package) {
		for _, e := range p.Errors {
			errs = append(errs, e.Error())
		}
	})
	if len(errs) > 0 {
		return nil, fmt.Errorf("package errors (does /repo build?):\n%s", strings.Join(errs, "\n"))
	}
	prog, spkgs := ssautil.AllPackages(pkgs, ssa.InstantiateGenerics)
	prog.Build()
	p := &Program{prog: prog, pkgs: map[string]*ssa.Package{}, files: files}
	for _, sp := range spkgs {
		if sp != nil {
			p.pkgs[sp.Pkg.Path()] = sp
		}
	}
	p.loadS = time.Since(t0).Seconds()
	return p, nil
}

// Job is one symbolic execution of a harness entry function with concrete parameters.
type Job struct {
	Pkg     string         `json:"pkg"`
	Entry   string         `json:"entry"`
	Params  map[string]int `json:"params"`
	Want    []string       `json:"want,omitempty"`
	Solver  string         `json:"solver,omitempty"`
	Timeout int            `json:"timeout_ms,omitempty"`
	BudgetS int            `json:"budget_s,omitempty"`
	Paths   int            `json:"path_limit,omitempty"`
	// Redirect: library methods replaced by harness summaries (see Exec.redirect)
	Redirect map[string]string `json:"redirect,omitempty"`
}

func (j *Job) String() string {
	var ks []string
	for k, v := range j.Params {
		ks = append(ks, fmt.Sprintf("%s=%d", k, v))
	}
	sort.Strings(ks)
	return j.Entry + "[" + strings.Join(ks, ",") + "]"
}

func fallbackKinds(primary string) []string {
	var r []string
	if primary == "cvc5-int" {
		// arithmetic harnesses: the one-shot integer back end first, it decides what the
		// incremental one cannot
		return []string{"cvc5-int-oneshot", "z3-new", "cvc5", "z3"}
	}
	for _, k := range []string{"z3-new", "cvc5", "z3", "cvc5-int"} {
		if k != primary {
			r = append(r, k)
		}
	}
	r = append(r, "cvc5-int-oneshot")
	return r
}

func runJob(p *Program, j *Job, trace bool, smtlog string, conc *replayVec) *JobResult {
	res := &JobResult{Entry: j.Entry, Params: j.Params, Asserts: map[string]*AssertStat{}, Covers: map[string]int{}, Panics: map[string]int{}, Known: map[string]int{}, Funcs: map[string]int{}, MergeFail: map[string]int{}, ForkSites: map[string]int{}}
	t0 := time.Now()
	defer func() { res.WallS = time.Since(t0).Seconds() }()
	pkg := p.pkgs[j.Pkg]
	if pkg == nil {
		res.Incomplete = "package not loaded: " + j.Pkg
		return res
	}
	fn := pkg.Func(j.Entry)
	if fn == nil {
		res.Incomplete = "no harness entry " + j.Entry
		return res
	}
	kind := j.Solver
	if kind == "" {
		kind = "z3-new"
	}
	to := j.Timeout
	if to == 0 {
		to = 20000
	}
	var lw *os.File
	if smtlog != "" {
		lw, _ = os.Create(smtlog)
		defer lw.Close()
	}
	x := &Exec{TB: newTB(), prog: p.prog, timeoutMs: to, res: res, params: j.Params, want: j.Want, trace: trace, merge: true,
		pathLimit: j.Paths, maxViol: 3, ufSeen: map[int]bool{}, pdom: map[*ssa.Function]map[*ssa.BasicBlock]*ssa.BasicBlock{},
		mcache: map[[2]int]bool{}, violSeen: map[string]int{}, fbKinds: fallbackKinds(kind), concrete: conc, redirect: j.Redirect, entryPkg: pkg}
	// the primary back end gets a short limit; whatever it cannot decide quickly goes to the
	// other back ends with the full limit (z3 4.8 is the fastest per query but times out on
	// some UF-heavy queries that z3 5.1 and cvc5 decide in under a second)
	pto := to
	if (kind == "z3" || kind == "z3-new" || kind == "cvc5-int") && pto > 5000 {
		pto = 5000
	}
	if lw != nil {
		x.sol = NewSolver(kind, pto, lw, &res.Solver)
	} else {
		x.sol = NewSolver(kind, pto, nil, &res.Solver)
	}
	x.fallbacks = make([]*Solver, len(x.fbKinds))
	defer func() {
		x.sol.Close()
		for _, s := range x.fallbacks {
			s.Close()
		}
	}()
	if j.BudgetS > 0 {
		x.deadline = time.Now().Add(time.Duration(j.BudgetS) * time.Second)
	}
	st := &State{globals: map[*ssa.Global]int{}, heap: map[int]Value{}}
	// package initialisers of the package under test (imports' init functions are skipped)
	// (the simulation's package initialiser only defines command-line flags through package
	// flag; the harness uses none of them)
	if initFn := pkg.Func("init"); initFn != nil && initFn.Blocks != nil && !strings.HasSuffix(j.Pkg, "internal/simulation") {
		x.skipInits = true
		st.frames = []*Frame{{fn: initFn, block: initFn.Blocks[0], env: map[ssa.Value]Value{}}}
		outs := x.explore(st, func(s *State) bool { return false })
		_ = outs
		// init has no symbolic branches: explore ends with the single finished path; recover
		// the final heap/globals from lastDone.
		if x.lastDone != nil {
			st = x.lastDone
		}
		res.Paths, res.Instrs = 0, 0
		x.skipInits = false
	}
	st.frames = []*Frame{{fn: fn, block: fn.Blocks[0], env: map[ssa.Value]Value{}}}
	st.pc, st.known, st.inputs = nil, nil, nil
	func() {
		defer func() {
			if r := recover(); r != nil {
				res.Internal = append(res.Internal, fmt.Sprintf("executor crashed: %v", r))
			}
		}()
		x.explore(st, nil)
	}()
	return res
}

var simRedirect = map[string]string{"DBFT.Start": "vSumStart", "DBFT.Reset": "vSumReset", "DBFT.OnReceive": "vSumOnReceive", "DBFT.OnTimeout": "vSumOnTimeout"}

func parseParams(s string) map[string]int {
	pm := map[string]int{}
	for _, kv := range strings.Split(s, ",") {
		if i := strings.Index(kv, "="); i > 0 {
			v, _ := strconv.Atoi(kv[i+1:])
			pm[kv[:i]] = v
		}
	}
	return pm
}

func runJobs(p *Program, jobs []*Job, workers int, progress bool) []*JobResult {
	res := make([]*JobResult, len(jobs))
	var wg sync.WaitGroup
	ch := make(chan int)
	var mu sync.Mutex
	done := 0
	for w := 0; w < workers; w++ {
		wg.Add(1)
		go func() {
			defer wg.Done()
			for i := range ch {
				r := runJob(p, jobs[i], false, "", nil)
				res[i] = r
				mu.Lock()
				done++
				if progress {
					fmt.Fprintf(os.Stderr, "[%d/%d] %s paths=%d queries=%d wall=%.1fs %s\n", done, len(jobs), jobs[i], r.Paths, r.Solver.Queries, r.WallS, r.Incomplete)
				}
				mu.Unlock()
			}
		}()
	}
	for i := range jobs {
		ch <- i
	}
	close(ch)
	wg.Wait()
	return res
}

func numWorkers() int {
	if s := os.Getenv("VERIF_JOBS"); s != "" {
		if n, err := strconv.Atoi(s); err == nil && n > 0 {
			return n
		}
	}
	n := runtime.NumCPU()
	if n > 16 {
		n = 16
	}
	return n
}

func main() {
	if d := os.Getenv("VERIF_DIR"); d != "" {
		verifDir = d
	}
	if d := os.Getenv("VERIF_REPO"); d != "" {
		repoDir = d
	}
	if len(os.Args) < 2 {
		fmt.Fprintln(os.Stderr, "usage: gosx job|check|replay ...")
		os.Exit(2)
	}
	switch os.Args[1] {
	case "job":
		fs := flag.NewFlagSet("job", flag.ExitOnError)
		pkg := fs.String("pkg", "github.com/nspcc-dev/dbft", "package import path")
		entry := fs.String("entry", "", "harness entry function")
		params := fs.String("params", "", "k=v,...")
		want := fs.String("want", "", "obligation prefixes, comma separated")
		solver := fs.String("solver", "z3-new", "primary back end")
		trace := fs.Bool("trace", false, "trace instructions")
		smtlog := fs.String("smtlog", "", "write SMT commands to file")
		limit := fs.Int("limit", 0, "path limit")
		verbose := fs.Bool("v", false, "print fork sites and function counts")
		budget := fs.Int("budget", 0, "wall-clock budget in seconds")
		doReplay := fs.Bool("replay", false, "replay every violation natively and print the outcome")
		fs.Parse(os.Args[2:])
		p, err := loadProgram(".", "./timer", "./internal/simulation")
		if err != nil {
			fmt.Fprintln(os.Stderr, err)
			os.Exit(2)
		}
		j := &Job{Pkg: *pkg, Entry: *entry, Params: parseParams(*params), Solver: *solver, Paths: *limit, BudgetS: *budget}
		if strings.HasSuffix(*pkg, "internal/simulation") {
			j.Redirect = simRedirect
		}
		progressEvery = 10 * time.Second
		if *want != "" {
			j.Want = strings.Split(*want, ",")
		}
		r := runJob(p, j, *trace, *smtlog, nil)
		if !*verbose {
			r.Funcs = nil
		} else {
			type kv struct {
				k string
				v int
			}
			var fs []kv
			for k, v := range r.ForkSites {
				fs = append(fs, kv{k, v})
			}
			sort.Slice(fs, func(i, j int) bool { return fs[i].v > fs[j].v })
			for i, c := range fs {
				if i >= 25 {
					break
				}
				fmt.Fprintf(os.Stderr, "  fork %6d %s\n", c.v, c.k)
			}
		}
		if *doReplay {
			for _, v := range r.Violations {
				if v.Extra != nil {
					fmt.Fprintf(os.Stderr, "REPLAY %s: no model: %v\n", v.ID, v.Extra)
					continue
				}
				vp, err := writeVector("_debug", j.Pkg, v)
				if err != nil {
					fmt.Fprintln(os.Stderr, err)
					continue
				}
				ro, err := nativeReplay(vp, j.Pkg)
				if err != nil {
					fmt.Fprintf(os.Stderr, "REPLAY %s: error %v\n", v.ID, err)
					continue
				}
				fmt.Fprintf(os.Stderr, "REPLAY %s %s: reproduced=%v failed=%v known=%v panic=%q tagerr=%q assume_ko=%v vector=%s\n", v.ID, v.Where, reproduced(v, ro), ro.Failed, ro.Known, ro.Panic, ro.TagErr, ro.AssumeKO, vp)
			}
			r.Violations = nil
		}
		b, _ := json.MarshalIndent(r, "", " ")
		fmt.Println(string(b))
		fmt.Fprintf(os.Stderr, "load %.1fs\n", p.loadS)
	case "check":
		os.Exit(cmdCheck(os.Args[2:]))
	case "replay":
		os.Exit(cmdReplay(os.Args[2:]))
	case "sweep":
		os.Exit(cmdSweep(os.Args[2:]))
	default:
		fmt.Fprintln(os.Stderr, "unknown command")
		os.Exit(2)
	}
}
