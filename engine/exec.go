package main

import (
	"fmt"
	"go/constant"
	"go/token"
	"go/types"
	"os"
	"sort"
	"strings"
	"time"

	"golang.org/x/tools/go/ssa"
)

type Frame struct {
	fn     *ssa.Function
	block  *ssa.BasicBlock
	prev   *ssa.BasicBlock
	ip     int
	env    map[ssa.Value]Value
	defers []FuncCall
	call   ssa.Value // instruction in the caller that receives the result
	eager  bool      // inside a pure harness predicate (vp*): both arms, no feasibility queries
}

type FuncCall struct {
	fv   FuncV
	args []Value
}

// Input is one fresh harness input in creation order (replay vectors are built from these).
type Input struct {
	Tag string
	T   *Term
}

type State struct {
	heap    map[int]Value
	frames  []*Frame
	replay  []bool
	taken   []bool
	globals map[*ssa.Global]int
	nforks  int
	pc      []*Term
	known   map[*Term]bool
	inputs  []Input
	cut     bool
}

func (s *State) learn(c *Term) {
	if s.known == nil {
		s.known = map[*Term]bool{}
	}
	switch c.op {
	case "not":
		s.known[c.args[0]] = false
	case "and":
		s.learn(c.args[0])
		s.learn(c.args[1])
		return
	}
	s.known[c] = true
}

func (s *State) clone() *State {
	n := &State{heap: make(map[int]Value, len(s.heap)), globals: make(map[*ssa.Global]int, len(s.globals)), nforks: s.nforks, pc: append([]*Term(nil), s.pc...), inputs: s.inputs[:len(s.inputs):len(s.inputs)]}
	for k, v := range s.heap {
		n.heap[k] = v
	}
	n.known = make(map[*Term]bool, len(s.known))
	for k, v := range s.known {
		n.known[k] = v
	}
	for k, v := range s.globals {
		n.globals[k] = v
	}
	for _, f := range s.frames {
		nf := *f
		nf.env = make(map[ssa.Value]Value, len(f.env))
		for k, v := range f.env {
			nf.env[k] = v
		}
		nf.defers = append([]FuncCall(nil), f.defers...)
		n.frames = append(n.frames, &nf)
	}
	return n
}

type forkReq struct{ cond *Term }
type killPath struct{ why string }
type internalErr struct{ msg string }

// Violation is a sat assertion (or a feasible implicit panic) together with the model.
type Violation struct {
	ID     string            `json:"id"`
	Entry  string            `json:"entry"`
	Params map[string]int    `json:"params"`
	Inputs []InputVal        `json:"inputs"`
	UFs    []UFVal           `json:"ufs"`
	Where  string            `json:"where,omitempty"`
	Known  bool              `json:"known_finding,omitempty"`
	Extra  map[string]string `json:"extra,omitempty"`
}
type InputVal struct {
	Tag string `json:"tag"`
	W   int    `json:"w"`
	V   uint64 `json:"v"`
}
type UFVal struct {
	Name string   `json:"name"`
	Args []uint64 `json:"args"`
	V    uint64   `json:"v"`
}

type AssertStat struct {
	Checked   int `json:"checked"`   // times the assertion was reached
	Trivial   int `json:"trivial"`   // condition folded to true without the solver
	Unsat     int `json:"unsat"`     // negation unsat under the path condition
	Sat       int `json:"sat"`       // violated
	Undecided int `json:"undecided"` // solver gave no verdict
}

type JobResult struct {
	Entry      string                 `json:"entry"`
	Params     map[string]int         `json:"params"`
	Paths      int                    `json:"paths"`
	Killed     int                    `json:"killed"`
	Fatal      int                    `json:"fatal_exits"`
	Cut        int                    `json:"cut"`
	Forks      int                    `json:"forks"`
	Merges     int                    `json:"merges"`
	Instrs     int                    `json:"instrs"`
	Asserts    map[string]*AssertStat `json:"asserts"`
	Covers     map[string]int         `json:"covers"`
	Panics     map[string]int         `json:"panics"`
	Known      map[string]int         `json:"known_hits"`
	Violations []*Violation           `json:"violations"`
	Funcs      map[string]int         `json:"funcs"`
	Solver     SolverStats            `json:"solver"`
	WallS      float64                `json:"wall_s"`
	Incomplete string                 `json:"incomplete,omitempty"`
	Internal   []string               `json:"internal_errors,omitempty"`
	MergeFail  map[string]int         `json:"merge_fail,omitempty"`
	ForkSites  map[string]int         `json:"-"`
}

type Exec struct {
	*TB
	prog      *ssa.Program
	sol       *Solver
	fallbacks []*Solver
	fbKinds   []string
	timeoutMs int
	res       *JobResult
	params    map[string]int
	want      []string // obligation prefixes selected (vWant)
	// redirect: calls of library methods replaced by harness summaries (C17: the simulation's
	// event loop is executed against the library's verified contract instead of its code);
	// key "DBFT.<Method>", value = harness function in the entry package
	redirect map[string]string
	entryPkg *ssa.Package
	trace     bool
	merge     bool
	pathLimit int
	deadline  time.Time
	maxViol   int
	objSeq    int
	ufApps    []*Term
	ufSeen    map[int]bool
	pdom      map[*ssa.Function]map[*ssa.BasicBlock]*ssa.BasicBlock
	mcache    map[[2]int]bool
	violSeen  map[string]int
	smtlog    *os.File
	nestLimit int
	concrete  *replayVec // concrete mode: inputs come from this vector
	skipInits bool
	qlabel    string
	lastSolver *Solver
	lastProgress time.Time
	lastDone  *State
}

func (x *Exec) alloc(st *State, v Value) int {
	x.objSeq++
	st.heap[x.objSeq] = v
	return x.objSeq
}

func (x *Exec) top(st *State) *Frame { return st.frames[len(st.frames)-1] }

func (x *Exec) eager(st *State) bool {
	return len(st.frames) > 0 && st.frames[len(st.frames)-1].eager
}

// check asks the portfolio; "unknown" only if no back end decides.
func (x *Exec) check(pc []*Term, extra *Term) string {
	t0 := time.Now()
	defer func() {
		if d := time.Since(t0); d > 2*time.Second && progressEvery > 0 {
			fmt.Fprintf(os.Stderr, "slow query %.1fs label=%s pc=%d\n", d.Seconds(), x.qlabel, len(pc))
		}
	}()
	x.lastSolver = x.sol
	r := x.sol.CheckPC(pc, extra)
	if r != "unknown" {
		return r
	}
	for i, k := range x.fbKinds {
		if x.fallbacks[i] == nil {
			x.fallbacks[i] = NewSolver(k, x.timeoutMs, nil, &x.res.Solver)
		}
		x.lastSolver = x.fallbacks[i]
		r = x.fallbacks[i].CheckPC(pc, extra)
		if r != "unknown" {
			return r
		}
	}
	return "unknown"
}

func (x *Exec) decide(st *State, c *Term) bool {
	if c.isConst() {
		return c.val == 1
	}
	if len(st.replay) > 0 {
		b := st.replay[0]
		st.replay = st.replay[1:]
		st.taken = append(st.taken, b)
		return b
	}
	if v, ok := st.known[c]; ok {
		st.taken = append(st.taken, v)
		return v
	}
	if c.op == "not" {
		if v, ok := st.known[c.args[0]]; ok {
			st.taken = append(st.taken, !v)
			return !v
		}
	}
	panic(forkReq{c})
}

func (x *Exec) feasible(st *State, c, branch *Term) bool {
	if x.eager(st) || x.freshFlag(st, c) {
		return true
	}
	if progressEvery > 0 {
		f := x.top(st)
		x.qlabel = fmt.Sprintf("branch %s#%d", f.fn.Name(), f.block.Index)
	}
	r := x.check(st.pc, branch)
	// unknown: keep the path (sound for violations because every assertion query carries the
	// full path condition), but remember that a query was undecided.
	return r != "unsat"
}

// explore executes st until completion or until stop(st); it forks on demand (DFS) and returns
// the states that stopped.
func (x *Exec) explore(st *State, stop func(*State) bool) (out []*State) {
	for {
		if x.res.Incomplete != "" {
			return
		}
		if x.pathLimit > 0 && x.res.Paths >= x.pathLimit {
			x.res.Incomplete = fmt.Sprintf("path limit %d reached", x.pathLimit)
			return
		}
		if x.res.Instrs%4096 == 0 {
			now := time.Now()
			if !x.deadline.IsZero() && now.After(x.deadline) {
				x.res.Incomplete = "wall-clock budget exhausted"
				return
			}
			if progressEvery > 0 && now.Sub(x.lastProgress) > progressEvery {
				x.lastProgress = now
				f := x.top(st)
				fmt.Fprintf(os.Stderr, "progress: paths=%d killed=%d forks=%d merges=%d instrs=%d queries=%d solver=%v depth=%d at %s#%d pc=%d\n", x.res.Paths, x.res.Killed, x.res.Forks, x.res.Merges, x.res.Instrs, x.res.Solver.Queries, x.res.Solver.Dur, len(st.frames), f.fn.Name(), f.block.Index, len(st.pc))
			}
		}
		if len(st.frames) == 0 {
			x.lastDone = st
			x.res.Paths++
			if st.cut {
				x.res.Cut++
			}
			return
		}
		if stop != nil && stop(st) {
			return append(out, st)
		}
		f := x.top(st)
		if x.merge && len(st.replay) == 0 {
			if ifi, ok := f.block.Instrs[f.ip].(*ssa.If); ok {
				if c, ok := x.val(st, ifi.Cond).(*Term); ok && !c.isConst() {
					if _, known := st.known[c]; !known {
						if j := x.ipdom(f.fn, f.block); j != nil || (len(st.frames) >= 2 && f.call != nil && len(f.defers) == 0) {
							res, merged := x.tryMerge(st, c, j)
							if merged != nil {
								st = merged
								continue
							}
							if len(res) == 0 {
								return out
							}
							for _, s2 := range res {
								out = append(out, x.explore(s2, stop)...)
							}
							return out
						}
					}
				}
			}
		}
		var fr *forkReq
		var kp *killPath
		var ep *execPanic
		func() {
			defer func() {
				if r := recover(); r != nil {
					switch v := r.(type) {
					case forkReq:
						fr = &v
					case killPath:
						kp = &v
					case execPanic:
						ep = &v
					case internalErr:
						x.res.Internal = append(x.res.Internal, v.msg)
						kp = &killPath{"internal"}
					default:
						f := x.top(st)
						msg := fmt.Sprintf("INTERNAL at %s block %d ip %d: %v", f.fn, f.block.Index, f.ip, r)
						if f.ip < len(f.block.Instrs) {
							msg += fmt.Sprintf("; instr: %s", f.block.Instrs[f.ip])
						}
						x.res.Internal = append(x.res.Internal, msg)
						kp = &killPath{"internal"}
					}
				}
			}()
			st.taken = st.taken[:0]
			x.step(st)
		}()
		if kp != nil {
			if kp.why == "fatal" {
				x.res.Fatal++
				x.res.Paths++
			} else {
				x.res.Killed++
			}
			return
		}
		if ep != nil {
			x.onPanic(st, ep)
			return
		}
		if fr != nil {
			base := append([]bool(nil), st.taken...)
			st.nforks++
			x.res.Forks++
			f := x.top(st)
			x.res.ForkSites[fmt.Sprintf("%s#%d", f.fn.Name(), f.block.Index)]++
			// An instruction-level fork (nil check, symbolic index, map key, type assertion):
			// run the children to the end of this instruction and join them again.
			depth, ffn, fblk, fip := len(st.frames), f.fn, f.block, f.ip
			_, isIf := f.block.Instrs[f.ip].(*ssa.If)
			_, isRet := f.block.Instrs[f.ip].(*ssa.Return)
			_, isRD := f.block.Instrs[f.ip].(*ssa.RunDefers)
			joinable := x.merge && !isIf && !isRet && !isRD
			stopI := func(s *State) bool {
				if len(s.frames) != depth {
					return false
				}
				t := x.top(s)
				return t.fn == ffn && t.block == fblk && t.ip == fip+1
			}
			pcBase := len(st.pc)
			var kids []*State
			for _, b := range []bool{true, false} {
				c := fr.cond
				if !b {
					c = x.mkNot(c)
				}
				if x.feasible(st, fr.cond, c) {
					child := st.clone()
					child.pc = append(child.pc, c)
					child.learn(c)
					child.replay = append(append([]bool(nil), base...), b)
					if joinable {
						kids = append(kids, x.explore(child, stopI)...)
					} else {
						out = append(out, x.explore(child, stop)...)
					}
				}
			}
			if !joinable {
				return out
			}
			merged := x.mergeGroup(st, kids, pcBase)
			if len(merged) == 1 {
				st = merged[0]
				continue
			}
			for _, s2 := range merged {
				out = append(out, x.explore(s2, stop)...)
			}
			return out
		}
	}
}

func (x *Exec) onPanic(st *State, ep *execPanic) {
	f := x.top(st)
	where := ep.msg + " @ " + f.fn.String()
	if x.eager(st) {
		// arms of eager predicates are not checked for feasibility: ask now.
		if x.check(st.pc, nil) != "sat" {
			x.res.Killed++
			return
		}
		x.res.Internal = append(x.res.Internal, "harness predicate panics: "+where)
		return
	}
	x.res.Panics[where]++
	x.res.Paths++
	x.recordViolation(st, "PANIC", nil, where, false)
}

// freshFlag: c is a Boolean variable that occurs nowhere in the path condition, so both
// outcomes are feasible without asking the solver.
func (x *Exec) freshFlag(st *State, c *Term) bool {
	if c.op == "not" {
		c = c.args[0]
	}
	if c.op != "var" || c.w != 0 {
		return false
	}
	for _, p := range st.pc {
		if x.mentions(p, c) {
			return false
		}
	}
	return true
}

func (x *Exec) mentions(t, v *Term) bool {
	if t == v {
		return true
	}
	if len(t.args) == 0 {
		return false
	}
	k := [2]int{t.id, v.id}
	if r, ok := x.mcache[k]; ok {
		return r
	}
	r := false
	for _, a := range t.args {
		if x.mentions(a, v) {
			r = true
			break
		}
	}
	x.mcache[k] = r
	return r
}

func (x *Exec) get(f *Frame, v ssa.Value) Value {
	switch c := v.(type) {
	case *ssa.Const:
		return x.constVal(c)
	case *ssa.Function:
		return FuncV{fn: c}
	case *ssa.Builtin:
		return OpaqueV{"builtin:" + c.Name()}
	case *ssa.Global:
		panic("global handled by caller")
	}
	r, ok := f.env[v]
	if !ok {
		panic(fmt.Sprintf("unbound value %s (%T) in %s", v.Name(), v, f.fn))
	}
	return r
}

func (x *Exec) val(st *State, v ssa.Value) Value {
	f := x.top(st)
	if g, ok := v.(*ssa.Global); ok {
		id, ok := st.globals[g]
		if !ok {
			id = x.alloc(st, x.zeroValue(g.Type().(*types.Pointer).Elem()))
			st.globals[g] = id
		}
		return PtrV{obj: id, nonnil: x.mkBool(true)}
	}
	return x.get(f, v)
}

func (x *Exec) constVal(c *ssa.Const) Value {
	t := c.Type()
	if c.Value == nil {
		return x.zeroValue(t)
	}
	switch u := t.Underlying().(type) {
	case *types.Basic:
		if u.Info()&types.IsBoolean != 0 {
			return x.mkBool(constant.BoolVal(c.Value))
		}
		if u.Info()&types.IsString != 0 {
			return StringV{constant.StringVal(c.Value)}
		}
		if w, _ := intWidth(u); w > 0 {
			if i, ok := constant.Int64Val(constant.ToInt(c.Value)); ok {
				return x.mkConst(w, uint64(i))
			}
			u64, _ := constant.Uint64Val(constant.ToInt(c.Value))
			return x.mkConst(w, u64)
		}
		return OpaqueV{"const:" + c.String()}
	}
	panic("constVal: " + c.String())
}

// alts lists every alternative of p (none for the nil pointer).
func (x *Exec) alts(p PtrV) []PtrAlt {
	if p.obj < 0 {
		return nil
	}
	if len(p.more) == 0 {
		return []PtrAlt{{p.obj, p.path, p.nonnil}}
	}
	return append([]PtrAlt{{p.obj, p.path, p.nonnil}}, p.more...)
}

func (x *Exec) ptrFromAlts(a []PtrAlt) PtrV {
	if len(a) == 0 {
		return PtrV{obj: -1, nonnil: x.mkBool(false)}
	}
	p := PtrV{obj: a[0].obj, path: a[0].path, nonnil: a[0].g}
	if len(a) > 1 {
		p.more = a[1:]
	}
	return p
}

// ptrNonNil: the pointer is non-nil iff one of its guards holds.
func (x *Exec) ptrNonNil(p PtrV) *Term {
	if p.obj < 0 {
		return x.mkBool(false)
	}
	r := p.nonnil
	for _, a := range p.more {
		r = x.mkOr(r, a.g)
	}
	return r
}

// resolvePtr forks until the pointer denotes a single object (panics the path if nil).
func (x *Exec) resolvePtr(st *State, p PtrV, what string) PtrV {
	if p.obj < 0 {
		panic(execPanic{what})
	}
	if len(p.more) == 0 {
		x.checkNonNil(st, p.nonnil, false, what)
		return PtrV{obj: p.obj, path: p.path, nonnil: x.mkBool(true)}
	}
	for _, a := range x.alts(p) {
		if x.decide(st, a.g) {
			return PtrV{obj: a.obj, path: a.path, nonnil: x.mkBool(true)}
		}
	}
	panic(execPanic{what})
}

func (x *Exec) load(st *State, p PtrV) Value {
	if len(p.more) == 0 {
		x.checkNonNil(st, p.nonnil, p.obj < 0, "nil dereference")
		return getPath(st.heap[p.obj], p.path)
	}
	x.checkNonNil(st, x.ptrNonNil(p), false, "nil dereference")
	al := x.alts(p)
	res := getPath(st.heap[al[len(al)-1].obj], al[len(al)-1].path)
	okAll := true
	for k := len(al) - 2; k >= 0 && okAll; k-- {
		v := getPath(st.heap[al[k].obj], al[k].path)
		m, ok := x.mergeVal(v, res, al[k].g)
		if !ok {
			okAll = false
			break
		}
		res = m
	}
	if okAll {
		return res
	}
	q := x.resolvePtr(st, p, "nil dereference")
	return getPath(st.heap[q.obj], q.path)
}

func (x *Exec) store(st *State, p PtrV, v Value) {
	if len(p.more) == 0 {
		x.checkNonNil(st, p.nonnil, p.obj < 0, "nil dereference (store)")
		st.heap[p.obj] = setPath(st.heap[p.obj], p.path, v)
		return
	}
	x.checkNonNil(st, x.ptrNonNil(p), false, "nil dereference (store)")
	al := x.alts(p)
	nvs := make([]Value, len(al))
	okAll := true
	for k, a := range al {
		old := getPath(st.heap[a.obj], a.path)
		m, ok := x.mergeVal(v, old, a.g)
		if !ok {
			okAll = false
			break
		}
		nvs[k] = m
	}
	if !okAll {
		q := x.resolvePtr(st, p, "nil dereference (store)")
		st.heap[q.obj] = setPath(st.heap[q.obj], q.path, v)
		return
	}
	for k, a := range al {
		st.heap[a.obj] = setPath(st.heap[a.obj], a.path, nvs[k])
	}
}

// checkNonNil: decide first (may fork), panic path if nil.
func (x *Exec) checkNonNil(st *State, nonnil *Term, concreteNil bool, what string) {
	if concreteNil {
		panic(execPanic{what})
	}
	if !x.decide(st, nonnil) {
		panic(execPanic{what})
	}
}

func (x *Exec) step(st *State) {
	f := x.top(st)
	ins := f.block.Instrs[f.ip]
	x.res.Instrs++
	if x.trace {
		fmt.Fprintf(os.Stderr, "%*s%s: %s\n", len(st.frames), "", f.fn.Name(), ins)
	}
	switch i := ins.(type) {
	case *ssa.DebugRef:
		f.ip++
	case *ssa.Alloc:
		id := x.alloc(st, x.zeroValue(i.Type().(*types.Pointer).Elem()))
		f.env[i] = PtrV{obj: id, nonnil: x.mkBool(true)}
		f.ip++
	case *ssa.Phi:
		for k, p := range f.block.Preds {
			if p == f.prev {
				f.env[i] = x.val(st, i.Edges[k])
				break
			}
		}
		f.ip++
	case *ssa.BinOp:
		f.env[i] = x.binop(st, i.Op, x.val(st, i.X), x.val(st, i.Y), i.X.Type())
		f.ip++
	case *ssa.UnOp:
		f.env[i] = x.unop(st, i)
		f.ip++
	case *ssa.FieldAddr:
		p := x.val(st, i.X).(PtrV)
		np := PtrV{obj: p.obj, path: append(append([]int(nil), p.path...), i.Field), nonnil: p.nonnil}
		for _, a := range p.more {
			np.more = append(np.more, PtrAlt{a.obj, append(append([]int(nil), a.path...), i.Field), a.g})
		}
		f.env[i] = np
		f.ip++
	case *ssa.Field:
		f.env[i] = x.val(st, i.X).(StructV).f[i.Field]
		f.ip++
	case *ssa.IndexAddr:
		f.env[i] = x.indexAddr(st, x.val(st, i.X), x.val(st, i.Index))
		f.ip++
	case *ssa.Index:
		switch a := x.val(st, i.X).(type) {
		case ArrayV:
			f.env[i] = x.readIndexed(st, a.e, x.val(st, i.Index).(*Term))
		default:
			panic(fmt.Sprintf("Index on %T", a))
		}
		f.ip++
	case *ssa.Store:
		if sp, ok := x.val(st, i.Addr).(symIndexPtr); ok {
			x.storeIndexed(st, sp, x.val(st, i.Val).(*Term))
		} else {
			x.store(st, x.val(st, i.Addr).(PtrV), x.val(st, i.Val))
		}
		f.ip++
	case *ssa.Extract:
		f.env[i] = x.val(st, i.Tuple).(TupleV)[i.Index]
		f.ip++
	case *ssa.ChangeType:
		f.env[i] = x.val(st, i.X)
		f.ip++
	case *ssa.ChangeInterface:
		f.env[i] = x.val(st, i.X)
		f.ip++
	case *ssa.MakeInterface:
		f.env[i] = IfaceV{typ: i.X.Type(), val: x.val(st, i.X), nonnil: x.mkBool(true)}
		f.ip++
	case *ssa.Convert:
		f.env[i] = x.convert(x.val(st, i.X), i.X.Type(), i.Type())
		f.ip++
	case *ssa.MakeClosure:
		b := make([]Value, len(i.Bindings))
		for k, bv := range i.Bindings {
			b[k] = x.val(st, bv)
		}
		f.env[i] = FuncV{fn: i.Fn.(*ssa.Function), bind: b}
		f.ip++
	case *ssa.MakeSlice:
		n := x.mustConst(x.val(st, i.Len))
		c := x.mustConst(x.val(st, i.Cap))
		if n < 0 || c < n {
			panic(execPanic{"makeslice: len out of range"})
		}
		elem := i.Type().Underlying().(*types.Slice).Elem()
		e := make([]Value, c)
		z := x.zeroValue(elem)
		for k := range e {
			e[k] = z
		}
		id := x.alloc(st, ArrayV{e})
		f.env[i] = SliceV{arr: id, off: 0, length: n, capacity: c}
		f.ip++
	case *ssa.MakeMap:
		id := x.alloc(st, MapData{})
		f.env[i] = MapV{obj: id}
		f.ip++
	case *ssa.MakeChan:
		c := x.mustConst(x.val(st, i.Size))
		id := x.alloc(st, ChanData{capacity: c})
		f.env[i] = PtrV{obj: id, nonnil: x.mkBool(true)}
		f.ip++
	case *ssa.Slice:
		f.env[i] = x.sliceOp(st, i)
		f.ip++
	case *ssa.Lookup:
		f.env[i] = x.lookup(st, i)
		f.ip++
	case *ssa.MapUpdate:
		x.mapUpdate(st, i)
		f.ip++
	case *ssa.Range:
		m := x.val(st, i.X).(MapV)
		it := RangeIter{m: m.obj}
		if m.obj >= 0 {
			md := st.heap[m.obj].(MapData)
			it.keys = append([]Value(nil), md.keys...)
			it.keys = x.permuteKeys(it.keys)
		}
		f.env[i] = it
		f.ip++
	case *ssa.Next:
		it := x.val(st, i.Iter).(RangeIter)
		// Go semantics: entries removed during iteration are not produced; we iterate over the
		// snapshot of keys and skip keys that are no longer present.
		produced := false
		for it.pos < len(it.keys) {
			k := it.keys[it.pos]
			it.pos++
			md := st.heap[it.m].(MapData)
			idx := -1
			for j := range md.keys {
				if sameVal(md.keys[j], k) {
					idx = j
					break
				}
			}
			if idx >= 0 {
				f.env[i] = TupleV{x.mkBool(true), k, md.vals[idx]}
				produced = true
				break
			}
		}
		f.env[i.Iter] = it
		if !produced {
			f.env[i] = TupleV{x.mkBool(false), nil, nil}
		}
		f.ip++
	case *ssa.TypeAssert:
		f.env[i] = x.typeAssert(st, i)
		f.ip++
	case *ssa.If:
		c := x.val(st, i.Cond).(*Term)
		b := x.decide(st, c)
		f.prev = f.block
		if b {
			f.block = f.block.Succs[0]
		} else {
			f.block = f.block.Succs[1]
		}
		f.ip = 0
	case *ssa.Jump:
		f.prev = f.block
		f.block = f.block.Succs[0]
		f.ip = 0
	case *ssa.Return:
		var res Value
		switch len(i.Results) {
		case 0:
		case 1:
			res = x.val(st, i.Results[0])
		default:
			tv := make(TupleV, len(i.Results))
			for k, r := range i.Results {
				tv[k] = x.val(st, r)
			}
			res = tv
		}
		x.ret(st, res)
	case *ssa.RunDefers:
		if n := len(f.defers); n > 0 {
			d := f.defers[n-1]
			f.defers = f.defers[:n-1]
			x.pushCall(st, d.fv, d.args, nil)
		} else {
			f.ip++
		}
	case *ssa.Defer:
		fv, args := x.resolveCall(st, &i.Call)
		f.defers = append(f.defers, FuncCall{fv, args})
		f.ip++
	case *ssa.Panic:
		panic(execPanic{"explicit panic"})
	case *ssa.Call:
		x.call(st, i)
	case *ssa.Send:
		x.chanSend(st, i)
		f.ip++
	case *ssa.Select:
		f.env[i] = x.selectOp(st, i)
		f.ip++
	case *ssa.Go:
		panic(fmt.Sprintf("unsupported instruction %T", ins))
	default:
		panic(fmt.Sprintf("unsupported instruction %T: %s", ins, ins))
	}
}

// permuteKeys: map iteration order is unspecified in Go; param "maporder" selects one of the
// permutations of up to 3 keys (0 = insertion order). More keys keep insertion order.
func (x *Exec) permuteKeys(keys []Value) []Value {
	p := x.params["maporder"]
	if p == 0 || len(keys) < 2 {
		return keys
	}
	if len(keys) == 2 {
		if p%2 == 1 {
			return []Value{keys[1], keys[0]}
		}
		return keys
	}
	if len(keys) == 3 {
		perms := [][3]int{{0, 1, 2}, {0, 2, 1}, {1, 0, 2}, {1, 2, 0}, {2, 0, 1}, {2, 1, 0}}
		q := perms[p%6]
		return []Value{keys[q[0]], keys[q[1]], keys[q[2]]}
	}
	if p%2 == 1 { // reverse
		r := make([]Value, len(keys))
		for i := range keys {
			r[len(keys)-1-i] = keys[i]
		}
		return r
	}
	return keys
}

func (x *Exec) ret(st *State, res Value) {
	f := x.top(st)
	st.frames = st.frames[:len(st.frames)-1]
	if len(st.frames) == 0 {
		return
	}
	c := x.top(st)
	if f.call != nil {
		c.env[f.call] = res
		c.ip++
	}
	// deferred call frames (call == nil) return into RunDefers, which re-executes
}

func (x *Exec) mustConst(v Value) int {
	t := v.(*Term)
	if !t.isConst() {
		panic("expected concrete integer, got symbolic")
	}
	return int(sx(t.val, t.w))
}

// concreteIndex case-splits a symbolic index over [0,n).
func (x *Exec) concreteIndex(st *State, idx *Term, n int) int {
	if idx.isConst() {
		k := int(sx(idx.val, idx.w))
		if k < 0 || k >= n {
			panic(execPanic{"index out of range"})
		}
		return k
	}
	for k := 0; k < n; k++ {
		if x.decide(st, x.mkEq(idx, x.mkConst(idx.w, uint64(k)))) {
			return k
		}
	}
	panic(execPanic{"index out of range (symbolic)"})
}

// readIndexed reads e[idx]; for a symbolic index over scalar cells it builds an ite-chain
// (after checking the bounds) instead of forking.
func (x *Exec) readIndexed(st *State, e []Value, idx *Term) Value {
	if idx.isConst() {
		return e[x.concreteIndex(st, idx, len(e))]
	}
	allScalar := true
	for _, v := range e {
		if _, ok := v.(*Term); !ok {
			allScalar = false
			break
		}
	}
	if !allScalar || len(e) == 0 {
		return e[x.concreteIndex(st, idx, len(e))]
	}
	inb := x.mkCmp("bvult", idx, x.mkConst(idx.w, uint64(len(e))))
	if !x.decide(st, inb) {
		panic(execPanic{"index out of range (symbolic)"})
	}
	res := e[len(e)-1].(*Term)
	for k := len(e) - 2; k >= 0; k-- {
		res = x.mkIte(x.mkEq(idx, x.mkConst(idx.w, uint64(k))), e[k].(*Term), res)
	}
	return res
}

// storeIndexed writes arr[idx] = v for a symbolic idx as a conditional update of every cell.
func (x *Exec) storeIndexed(st *State, sp symIndexPtr, v *Term) {
	x.checkNonNil(st, sp.base.nonnil, sp.base.obj < 0, "nil array pointer")
	inb := x.mkCmp("bvult", sp.idx, x.mkConst(sp.idx.w, uint64(sp.n)))
	if !x.decide(st, inb) {
		panic(execPanic{"index out of range (symbolic store)"})
	}
	arr := getPath(st.heap[sp.base.obj], sp.base.path).(ArrayV)
	e := make([]Value, len(arr.e))
	for k := range e {
		e[k] = x.mkIte(x.mkEq(sp.idx, x.mkConst(sp.idx.w, uint64(k))), v, arr.e[k].(*Term))
	}
	st.heap[sp.base.obj] = setPath(st.heap[sp.base.obj], sp.base.path, ArrayV{e})
}

func (x *Exec) indexAddr(st *State, base Value, idxv Value) Value {
	idx := idxv.(*Term)
	switch b := base.(type) {
	case SliceV:
		if b.arr < 0 {
			panic(execPanic{"index out of range (nil or empty slice)"})
		}
		k := x.concreteIndex(st, idx, b.length)
		return PtrV{obj: b.arr, path: []int{b.off + k}, nonnil: x.mkBool(true)}
	case PtrV: // pointer to array
		b = x.resolvePtr(st, b, "nil array pointer")
		arr := getPath(st.heap[b.obj], b.path).(ArrayV)
		if !idx.isConst() {
			// symbolic index into an array of scalars: address is resolved lazily by
			// case split unless a later load can use an ite-chain (rtt.times[idx]).
			return symIndexPtr{base: b, idx: idx, n: len(arr.e)}
		}
		k := x.concreteIndex(st, idx, len(arr.e))
		return PtrV{obj: b.obj, path: append(append([]int(nil), b.path...), k), nonnil: x.mkBool(true)}
	}
	panic(fmt.Sprintf("indexAddr on %T", base))
}

// symIndexPtr is the address of arr[idx] for a symbolic idx (arrays of scalars only).
type symIndexPtr struct {
	base PtrV
	idx  *Term
	n    int
}

func (x *Exec) sliceOp(st *State, i *ssa.Slice) Value {
	lo, hi, mx := -1, -1, -1
	// symbolic bounds are case-split over the possible values (small slices only)
	limit := 0
	switch b := x.val(st, i.X).(type) {
	case SliceV:
		limit = b.capacity
	case StringV:
		limit = len(b.s)
	default:
		limit = 64
	}
	bound := func(v ssa.Value) int {
		t := x.val(st, v).(*Term)
		if t.isConst() {
			return int(sx(t.val, t.w))
		}
		for k := 0; k <= limit; k++ {
			if x.decide(st, x.mkEq(t, x.mkConst(t.w, uint64(k)))) {
				return k
			}
		}
		panic(execPanic{"slice bounds out of range (symbolic)"})
	}
	if i.Low != nil {
		lo = bound(i.Low)
	}
	if i.High != nil {
		hi = bound(i.High)
	}
	if i.Max != nil {
		mx = bound(i.Max)
	}
	switch b := x.val(st, i.X).(type) {
	case SliceV:
		if lo < 0 {
			lo = 0
		}
		if hi < 0 {
			hi = b.length
		}
		if mx < 0 {
			mx = b.capacity
		}
		if lo > hi || hi > mx || mx > b.capacity {
			panic(execPanic{"slice bounds out of range"})
		}
		if b.arr < 0 {
			return SliceV{arr: -1}
		}
		return SliceV{arr: b.arr, off: b.off + lo, length: hi - lo, capacity: mx - lo}
	case PtrV: // *array
		b = x.resolvePtr(st, b, "nil array pointer (slice)")
		arr := getPath(st.heap[b.obj], b.path).(ArrayV)
		if len(b.path) != 0 {
			panic("slice of nested array unsupported")
		}
		n := len(arr.e)
		if lo < 0 {
			lo = 0
		}
		if hi < 0 {
			hi = n
		}
		if mx < 0 {
			mx = n
		}
		if lo > hi || hi > mx || mx > n {
			panic(execPanic{"slice bounds out of range"})
		}
		return SliceV{arr: b.obj, off: lo, length: hi - lo, capacity: mx - lo}
	case StringV:
		if lo < 0 {
			lo = 0
		}
		if hi < 0 {
			hi = len(b.s)
		}
		return StringV{b.s[lo:hi]}
	}
	panic(fmt.Sprintf("slice of %T", x.val(st, i.X)))
}

func (x *Exec) keyEq(a, b Value) *Term {
	switch av := a.(type) {
	case *Term:
		return x.mkEq(av, b.(*Term))
	case StringV:
		return x.mkBool(av.s == b.(StringV).s)
	}
	panic(fmt.Sprintf("keyEq %T", a))
}

func (x *Exec) lookup(st *State, i *ssa.Lookup) Value {
	mv, ok := x.val(st, i.X).(MapV)
	if !ok {
		panic("lookup on non-map (string index?)")
	}
	k := x.val(st, i.Index)
	elem := i.X.Type().Underlying().(*types.Map).Elem()
	var found Value
	hit := false
	if mv.obj >= 0 {
		md := st.heap[mv.obj].(MapData)
		for j := range md.keys {
			if x.decide(st, x.keyEq(md.keys[j], k)) {
				found, hit = md.vals[j], true
				break
			}
		}
	}
	if !hit {
		found = x.zeroValue(elem)
	}
	if i.CommaOk {
		return TupleV{found, x.mkBool(hit)}
	}
	return found
}

func (x *Exec) mapUpdate(st *State, i *ssa.MapUpdate) {
	mv := x.val(st, i.Map).(MapV)
	if mv.obj < 0 {
		panic(execPanic{"assignment to entry in nil map"})
	}
	k, v := x.val(st, i.Key), x.val(st, i.Value)
	md := st.heap[mv.obj].(MapData)
	pos := -1
	for j := range md.keys {
		if x.decide(st, x.keyEq(md.keys[j], k)) {
			pos = j
			break
		}
	}
	nk := append([]Value(nil), md.keys...)
	nv := append([]Value(nil), md.vals...)
	if pos >= 0 {
		nv[pos] = v
	} else {
		nk = append(nk, k)
		nv = append(nv, v)
	}
	st.heap[mv.obj] = MapData{nk, nv}
}

func (x *Exec) typeAssert(st *State, i *ssa.TypeAssert) Value {
	iv := x.val(st, i.X).(IfaceV)
	ok := false
	var out Value
	if it, isIface := i.AssertedType.Underlying().(*types.Interface); isIface {
		if iv.typ != nil && types.Implements(iv.typ, it) && x.decide(st, iv.nonnil) {
			ok, out = true, iv
		} else {
			out = IfaceV{nonnil: x.mkBool(false)}
		}
	} else {
		if iv.typ != nil && types.Identical(iv.typ, i.AssertedType) && x.decide(st, iv.nonnil) {
			ok, out = true, iv.val
		} else {
			out = x.zeroValue(i.AssertedType)
		}
	}
	if i.CommaOk {
		return TupleV{out, x.mkBool(ok)}
	}
	if !ok {
		panic(execPanic{"type assertion failed"})
	}
	return out
}

func isSigned(t types.Type) bool {
	if b, ok := t.Underlying().(*types.Basic); ok {
		_, s := intWidth(b)
		return s
	}
	return false
}

func (x *Exec) binop(st *State, op token.Token, a, b Value, xt types.Type) Value {
	switch av := a.(type) {
	case *Term:
		bv := b.(*Term)
		if av.w == 0 { // bool
			switch op {
			case token.EQL:
				return x.mkEq(av, bv)
			case token.NEQ:
				return x.mkNot(x.mkEq(av, bv))
			case token.AND, token.LAND:
				return x.mkAnd(av, bv)
			case token.OR, token.LOR:
				return x.mkOr(av, bv)
			}
			panic("bool binop " + op.String())
		}
		s := isSigned(xt)
		if op == token.SHL || op == token.SHR {
			// shift count may have a different width; Go: count >= width gives 0 (or sign fill)
			if bv.w < av.w {
				bv = x.mkZext(av.w, bv)
			} else if bv.w > av.w {
				big := x.mkCmp("bvuge", bv, x.mkConst(bv.w, uint64(av.w)))
				bv = x.mkIte(big, x.mkConst(av.w, uint64(av.w)), x.mkExtract(av.w-1, 0, bv))
			}
			if op == token.SHL {
				return x.mkBin("bvshl", av, bv)
			}
			if s {
				return x.mkBin("bvashr", av, bv)
			}
			return x.mkBin("bvlshr", av, bv)
		}
		switch op {
		case token.ADD:
			return x.mkBin("bvadd", av, bv)
		case token.SUB:
			return x.mkBin("bvsub", av, bv)
		case token.MUL:
			return x.mkBin("bvmul", av, bv)
		case token.QUO, token.REM:
			if x.decide(st, x.mkEq(bv, x.mkConst(bv.w, 0))) {
				panic(execPanic{"integer divide by zero"})
			}
			n := map[bool]map[token.Token]string{true: {token.QUO: "bvsdiv", token.REM: "bvsrem"}, false: {token.QUO: "bvudiv", token.REM: "bvurem"}}[s][op]
			return x.mkBin(n, av, bv)
		case token.AND:
			return x.mkBin("bvand", av, bv)
		case token.OR:
			return x.mkBin("bvor", av, bv)
		case token.XOR:
			return x.mkBin("bvxor", av, bv)
		case token.AND_NOT:
			return x.mkBin("bvand", av, x.mkBvNot(bv))
		case token.EQL:
			return x.mkEq(av, bv)
		case token.NEQ:
			return x.mkNot(x.mkEq(av, bv))
		case token.LSS:
			return x.mkCmp(map[bool]string{true: "bvslt", false: "bvult"}[s], av, bv)
		case token.LEQ:
			return x.mkCmp(map[bool]string{true: "bvsle", false: "bvule"}[s], av, bv)
		case token.GTR:
			return x.mkCmp(map[bool]string{true: "bvsgt", false: "bvugt"}[s], av, bv)
		case token.GEQ:
			return x.mkCmp(map[bool]string{true: "bvsge", false: "bvuge"}[s], av, bv)
		}
		panic("int binop " + op.String())
	case StringV:
		bs := b.(StringV)
		switch op {
		case token.ADD:
			return StringV{av.s + bs.s}
		case token.EQL:
			return x.mkBool(av.s == bs.s)
		case token.NEQ:
			return x.mkBool(av.s != bs.s)
		}
	case PtrV:
		bp := b.(PtrV)
		eq := x.ptrEq(av, bp)
		if op == token.EQL {
			return eq
		}
		return x.mkNot(eq)
	case IfaceV:
		bi := b.(IfaceV)
		eq := x.ifaceEq(av, bi)
		if op == token.EQL {
			return eq
		}
		return x.mkNot(eq)
	case SliceV:
		bs := b.(SliceV)
		var eq *Term
		if bs.arr < 0 {
			eq = x.mkBool(av.arr < 0)
		} else if av.arr < 0 {
			eq = x.mkBool(false)
		} else {
			panic("slice comparison")
		}
		if op == token.EQL {
			return eq
		}
		return x.mkNot(eq)
	case MapV:
		eq := x.mkBool(av.obj < 0 && b.(MapV).obj < 0)
		if b.(MapV).obj >= 0 && av.obj >= 0 {
			panic("map comparison")
		}
		if op == token.EQL {
			return eq
		}
		return x.mkNot(eq)
	case FuncV:
		bf := b.(FuncV)
		if av.fn != nil && bf.fn != nil {
			panic("func comparison")
		}
		eq := x.mkBool(av.fn == nil && bf.fn == nil)
		if op == token.EQL {
			return eq
		}
		return x.mkNot(eq)
	case TimeV:
		panic("time comparison via ==")
	}
	panic(fmt.Sprintf("binop %s on %T", op, a))
}

func samePath(a, b []int) bool {
	if len(a) != len(b) {
		return false
	}
	for i := range a {
		if a[i] != b[i] {
			return false
		}
	}
	return true
}

func (x *Exec) ptrEq(a, b PtrV) *Term {
	na, nb := x.ptrNonNil(a), x.ptrNonNil(b)
	eq := x.mkAnd(x.mkNot(na), x.mkNot(nb)) // both nil
	for _, aa := range x.alts(a) {
		for _, bb := range x.alts(b) {
			if aa.obj == bb.obj && samePath(aa.path, bb.path) {
				eq = x.mkOr(eq, x.mkAnd(aa.g, bb.g))
			}
		}
	}
	return eq
}

func (x *Exec) ifaceEq(a, b IfaceV) *Term {
	if a.typ == nil && b.typ == nil {
		return x.mkBool(true)
	}
	if a.typ == nil {
		return x.mkNot(b.nonnil)
	}
	if b.typ == nil {
		return x.mkNot(a.nonnil)
	}
	bothNil := x.mkAnd(x.mkNot(a.nonnil), x.mkNot(b.nonnil))
	if !types.Identical(a.typ, b.typ) {
		return bothNil
	}
	var inner *Term
	switch av := a.val.(type) {
	case PtrV:
		inner = x.ptrEq(av, b.val.(PtrV))
	case *Term:
		inner = x.mkEq(av, b.val.(*Term))
	default:
		panic(fmt.Sprintf("iface eq on %T", a.val))
	}
	return x.mkOr(bothNil, x.mkAnd(x.mkAnd(a.nonnil, b.nonnil), inner))
}

func (x *Exec) unop(st *State, i *ssa.UnOp) Value {
	v := x.val(st, i.X)
	switch i.Op {
	case token.MUL:
		if sp, ok := v.(symIndexPtr); ok {
			x.checkNonNil(st, sp.base.nonnil, sp.base.obj < 0, "nil array pointer")
			arr := getPath(st.heap[sp.base.obj], sp.base.path).(ArrayV)
			return x.readIndexed(st, arr.e, sp.idx)
		}
		return x.load(st, v.(PtrV))
	case token.NOT:
		return x.mkNot(v.(*Term))
	case token.SUB:
		return x.mkNeg(v.(*Term))
	case token.XOR:
		return x.mkBvNot(v.(*Term))
	case token.ARROW:
		return x.chanRecv(st, v.(PtrV), i.CommaOk)
	}
	panic("unop " + i.Op.String())
}

func (x *Exec) convert(v Value, from, to types.Type) Value {
	if t, ok := v.(*Term); ok && t.w > 0 {
		if tb, ok := to.Underlying().(*types.Basic); ok {
			if w, _ := intWidth(tb); w > 0 {
				if w == t.w {
					return t
				}
				if w < t.w {
					return x.mkExtract(w-1, 0, t)
				}
				if isSigned(from) {
					return x.mkSext(w, t)
				}
				return x.mkZext(w, t)
			}
			if tb.Info()&types.IsString != 0 {
				return StringV{"?"}
			}
		}
	}
	if _, ok := v.(StringV); ok {
		return v
	}
	if _, ok := v.(SliceV); ok {
		return v
	}
	if _, ok := v.(PtrV); ok {
		return v
	}
	panic(fmt.Sprintf("convert %T from %s to %s", v, from, to))
}

// ---------------- calls

func (x *Exec) resolveCall(st *State, c *ssa.CallCommon) (FuncV, []Value) {
	args := make([]Value, 0, len(c.Args)+1)
	var fv FuncV
	if c.IsInvoke() {
		iv := x.val(st, c.Value).(IfaceV)
		x.checkNonNil(st, iv.nonnil, iv.typ == nil, "nil interface method call: "+c.Method.Name())
		fn := x.prog.LookupMethod(iv.typ, c.Method.Pkg(), c.Method.Name())
		if fn == nil {
			if _, ok := iv.val.(OpaqueV); ok || strings.HasPrefix(fmt.Sprint(iv.typ), "*gosx.opaque") {
				return FuncV{}, nil
			}
			panic(fmt.Sprintf("no method %s on %s", c.Method.Name(), iv.typ))
		}
		fv = FuncV{fn: fn}
		args = append(args, iv.val)
	} else {
		switch callee := c.Value.(type) {
		case *ssa.Function:
			fv = FuncV{fn: callee}
		case *ssa.Builtin:
			panic("builtin in resolveCall")
		default:
			fv = x.val(st, c.Value).(FuncV)
			if fv.fn == nil {
				panic(execPanic{"call of nil func"})
			}
		}
	}
	for _, a := range c.Args {
		args = append(args, x.val(st, a))
	}
	return fv, args
}

func (x *Exec) pushCall(st *State, fv FuncV, args []Value, call ssa.Value) {
	fn := fv.fn
	if len(st.frames) > 400 {
		panic(internalErr{"call depth > 400 in " + fn.String()})
	}
	if fn.Blocks == nil {
		panic(internalErr{"call of function without body: " + fn.String()})
	}
	parentEager := len(st.frames) > 0 && st.frames[len(st.frames)-1].eager
	nf := &Frame{fn: fn, block: fn.Blocks[0], env: make(map[ssa.Value]Value, 16), call: call, eager: parentEager || strings.HasPrefix(fn.Name(), "vp")}
	for k, p := range fn.Params {
		nf.env[p] = args[k]
	}
	for k, fvv := range fn.FreeVars {
		nf.env[fvv] = fv.bind[k]
	}
	st.frames = append(st.frames, nf)
	x.res.Funcs[fn.String()]++
}

func (x *Exec) call(st *State, i *ssa.Call) {
	f := x.top(st)
	c := &i.Call
	if b, ok := c.Value.(*ssa.Builtin); ok {
		f.env[i] = x.builtin(st, b.Name(), c)
		f.ip++
		return
	}
	fv, args := x.resolveCall(st, c)
	if x.skipInits && fv.fn != nil && fv.fn.Name() == "init" && fv.fn != f.fn {
		f.env[i] = nil
		f.ip++
		return
	}
	if fv.fn == nil { // method of an opaque stub value
		f.env[i] = x.stubResultSig(st, c.Signature(), c.Method.Name())
		f.ip++
		return
	}
	if len(x.redirect) > 0 {
		full := fv.fn.String()
		if strings.Contains(full, "nspcc-dev/dbft.DBFT[") {
			base := fv.fn.Name()
			if k := strings.Index(base, "["); k > 0 {
				base = base[:k] // instantiated generic: "Start[...Uint256]"
			}
			if h, ok := x.redirect["DBFT."+base]; ok && strings.Contains(full, ")."+base) {
				hf := x.entryPkg.Func(h)
				if hf == nil {
					panic(internalErr{"redirect target missing: " + h})
				}
				x.res.Funcs["REDIRECTED "+full+" -> "+h]++
				fv = FuncV{fn: hf}
			}
		}
	}
	if r, ok := x.intrinsic(st, fv.fn, args, i); ok {
		f.env[i] = r
		f.ip++
		return
	}
	if fv.fn.Blocks == nil || stubbedPkg(fv.fn) {
		f.env[i] = x.stubResultSig(st, fv.fn.Signature, fv.fn.Name())
		f.ip++
		return
	}
	x.pushCall(st, fv, args, i)
}

func fnPkgPath(fn *ssa.Function) string {
	if fn.Pkg != nil {
		return fn.Pkg.Pkg.Path()
	}
	if o := fn.Origin(); o != nil && o.Pkg != nil {
		return o.Pkg.Pkg.Path()
	}
	if fn.Object() != nil && fn.Object().Pkg() != nil {
		return fn.Object().Pkg().Path()
	}
	if fn.Signature.Recv() != nil {
		if p := fn.Signature.Recv().Pkg(); p != nil {
			return p.Path()
		}
	}
	return ""
}

func stubbedPkg(fn *ssa.Function) bool {
	p := fnPkgPath(fn)
	switch {
	case strings.HasPrefix(p, "go.uber.org/"), p == "fmt", p == "errors", p == "strconv", p == "sync", p == "sync/atomic", p == "os", p == "log", p == "context", p == "encoding/json", p == "testing":
		return true
	}
	return false
}

var opaqueType = types.NewPointer(types.NewNamed(types.NewTypeName(token.NoPos, types.NewPackage("gosx", "gosx"), "opaque", nil), types.NewStruct(nil, nil), nil))

func (x *Exec) stubResultSig(st *State, sig *types.Signature, name string) Value {
	res := sig.Results()
	mkv := func(t types.Type) Value {
		switch t.Underlying().(type) {
		case *types.Pointer:
			id := x.alloc(st, OpaqueV{"stub:" + name})
			return PtrV{obj: id, nonnil: x.mkBool(true)}
		case *types.Interface:
			id := x.alloc(st, OpaqueV{"stubiface:" + name})
			return IfaceV{typ: opaqueType, val: PtrV{obj: id, nonnil: x.mkBool(true)}, nonnil: x.mkBool(true)}
		}
		return x.zeroValue(t)
	}
	switch res.Len() {
	case 0:
		return nil
	case 1:
		return mkv(res.At(0).Type())
	}
	tv := make(TupleV, res.Len())
	for k := range tv {
		tv[k] = mkv(res.At(k).Type())
	}
	return tv
}

func (x *Exec) builtin(st *State, name string, c *ssa.CallCommon) Value {
	arg := func(k int) Value { return x.val(st, c.Args[k]) }
	switch name {
	case "len":
		switch a := arg(0).(type) {
		case SliceV:
			return x.mkConst(64, uint64(a.length))
		case symLenSlice:
			return a.n
		case StringV:
			return x.mkConst(64, uint64(len(a.s)))
		case MapV:
			if a.obj < 0 {
				return x.mkConst(64, 0)
			}
			return x.mkConst(64, uint64(len(st.heap[a.obj].(MapData).keys)))
		case ArrayV:
			return x.mkConst(64, uint64(len(a.e)))
		case PtrV: // channel
			if a.obj < 0 {
				return x.mkConst(64, 0)
			}
			return x.mkConst(64, uint64(len(st.heap[a.obj].(ChanData).q)))
		}
		panic(fmt.Sprintf("len of %T", arg(0)))
	case "cap":
		return x.mkConst(64, uint64(arg(0).(SliceV).capacity))
	case "append":
		s := arg(0).(SliceV)
		t, ok := arg(1).(SliceV)
		if !ok {
			panic("append with non-slice (string?)")
		}
		if t.length == 0 {
			return s
		}
		var src []Value
		ta := st.heap[t.arr].(ArrayV)
		src = ta.e[t.off : t.off+t.length]
		if s.arr >= 0 && s.length+t.length <= s.capacity {
			a := st.heap[s.arr].(ArrayV)
			e := append([]Value(nil), a.e...)
			copy(e[s.off+s.length:], src)
			st.heap[s.arr] = ArrayV{e}
			return SliceV{arr: s.arr, off: s.off, length: s.length + t.length, capacity: s.capacity}
		}
		nc := 2*(s.length+t.length) + 2
		e := make([]Value, nc)
		elemT := c.Args[0].Type().Underlying().(*types.Slice).Elem()
		z := x.zeroValue(elemT)
		for k := range e {
			e[k] = z
		}
		if s.arr >= 0 {
			a := st.heap[s.arr].(ArrayV)
			copy(e, a.e[s.off:s.off+s.length])
		}
		copy(e[s.length:], src)
		id := x.alloc(st, ArrayV{e})
		return SliceV{arr: id, off: 0, length: s.length + t.length, capacity: nc}
	case "copy":
		d := arg(0).(SliceV)
		s := arg(1).(SliceV)
		n := d.length
		if s.length < n {
			n = s.length
		}
		if n > 0 {
			sa := st.heap[s.arr].(ArrayV)
			tmp := append([]Value(nil), sa.e[s.off:s.off+n]...)
			da := st.heap[d.arr].(ArrayV)
			e := append([]Value(nil), da.e...)
			copy(e[d.off:], tmp)
			st.heap[d.arr] = ArrayV{e}
		}
		return x.mkConst(64, uint64(n))
	case "clear":
		switch a := arg(0).(type) {
		case SliceV:
			if a.arr >= 0 {
				arr := st.heap[a.arr].(ArrayV)
				e := append([]Value(nil), arr.e...)
				z := x.zeroValue(c.Args[0].Type().Underlying().(*types.Slice).Elem())
				for k := 0; k < a.length; k++ {
					e[a.off+k] = z
				}
				st.heap[a.arr] = ArrayV{e}
			}
		case MapV:
			if a.obj >= 0 {
				st.heap[a.obj] = MapData{}
			}
		}
		return nil
	case "delete":
		mv := arg(0).(MapV)
		if mv.obj >= 0 {
			md := st.heap[mv.obj].(MapData)
			k := arg(1)
			for j := range md.keys {
				if x.decide(st, x.keyEq(md.keys[j], k)) {
					nk := append(append([]Value(nil), md.keys[:j]...), md.keys[j+1:]...)
					nv := append(append([]Value(nil), md.vals[:j]...), md.vals[j+1:]...)
					st.heap[mv.obj] = MapData{nk, nv}
					break
				}
			}
		}
		return nil
	case "min", "max":
		a, b := arg(0).(*Term), arg(1).(*Term)
		s := isSigned(c.Args[0].Type())
		lt := x.mkCmp(map[bool]string{true: "bvslt", false: "bvult"}[s], a, b)
		if name == "min" {
			return x.mkIte(lt, a, b)
		}
		return x.mkIte(lt, b, a)
	case "print", "println":
		return nil
	}
	panic("builtin " + name)
}

// symLenSlice is a slice whose length is a solver variable and whose elements are never
// touched (C06: quorum arithmetic for every validator count).
type symLenSlice struct{ n *Term }

// ---------------- reporting helpers

func (x *Exec) assertStat(id string) *AssertStat {
	a := x.res.Asserts[id]
	if a == nil {
		a = &AssertStat{}
		x.res.Asserts[id] = a
	}
	return a
}

// recordViolation extracts a model for pc ∧ extra and stores it (bounded per id).
func (x *Exec) recordViolation(st *State, id string, extra *Term, where string, fresh bool) *Violation {
	x.violSeen[id]++
	if x.violSeen[id] > x.maxViol {
		return nil
	}
	v := &Violation{ID: id, Entry: x.res.Entry, Params: x.params, Where: where}
	// every term whose value is wanted is defined first (a definition after the check would
	// invalidate the model), then the back end that answered sat is asked again
	var ts []*Term
	for _, in := range st.inputs {
		ts = append(ts, in.T)
	}
	for _, app := range x.ufApps {
		ts = append(ts, app)
		ts = append(ts, app.args...)
	}
	s := x.lastSolver
	if !fresh || s == nil {
		s = x.sol
	}
	for _, t := range ts {
		s.emit(t)
	}
	if s.CheckPC(st.pc, extra) != "sat" {
		if x.check(st.pc, extra) != "sat" {
			v.Extra = map[string]string{"model": "unavailable"}
			x.res.Violations = append(x.res.Violations, v)
			return v
		}
		s = x.lastSolver
		for _, t := range ts {
			s.emit(t)
		}
		if s.CheckPC(st.pc, extra) != "sat" {
			v.Extra = map[string]string{"model": "unavailable"}
			x.res.Violations = append(x.res.Violations, v)
			return v
		}
	}
	vals, err := s.Values(ts)
	if err != nil {
		v.Extra = map[string]string{"model": err.Error()}
		x.res.Violations = append(x.res.Violations, v)
		return v
	}
	k := 0
	for _, in := range st.inputs {
		v.Inputs = append(v.Inputs, InputVal{Tag: in.Tag, W: in.T.w, V: vals[k]})
		k++
	}
	for _, app := range x.ufApps {
		u := UFVal{Name: app.name, V: vals[k]}
		k++
		for range app.args {
			u.Args = append(u.Args, vals[k])
			k++
		}
		v.UFs = append(v.UFs, u)
	}
	x.res.Violations = append(x.res.Violations, v)
	return v
}

func (x *Exec) noteUF(t *Term) {
	if t.op != "uf" || x.ufSeen[t.id] {
		return
	}
	x.ufSeen[t.id] = true
	x.ufApps = append(x.ufApps, t)
}

func sortedKeys(m map[string]int) []string {
	var ks []string
	for k := range m {
		ks = append(ks, k)
	}
	sort.Strings(ks)
	return ks
}
