package main

import (
	"sync"
	"crypto/sha256"
	"encoding/json"
	"flag"
	"fmt"
	"os"
	"os/exec"
	"path/filepath"
	"regexp"
	"sort"
	"strconv"
	"strings"
	"time"
)

// Plan is everything one property's check runs at one tier.
type Plan struct {
	Property    string
	Tier        string
	Patterns    []string // go/packages patterns to load from /repo
	Jobs        []*Job
	MustCover   []string // vCover ids that must be reached at least once in the whole run (vacuity)
	MustAssert  []string // assertion ids that must be reached and decided at least once
	Bounds      map[string]string
	Assumptions []string
	Outside     []string
	Explanation string
	PanicsCount bool // implicit panics are violations of this property (C11)
}

type KnownFinding struct {
	Status   string `json:"status"` // "known" or "fixed"
	Property string `json:"property"`
	ID       string `json:"id"`
	What     string `json:"what"`
	Replay   string `json:"replay,omitempty"`
	Commit   string `json:"commit,omitempty"`
	CarveOut string `json:"carve_out,omitempty"`
}

func loadKnownFindings() []KnownFinding {
	b, err := os.ReadFile(filepath.Join(verifDir, "known_findings.json"))
	if err != nil {
		return nil
	}
	var f struct {
		Findings []KnownFinding `json:"findings"`
	}
	if json.Unmarshal(b, &f) != nil {
		return nil
	}
	return f.Findings
}

type replayOutcome struct {
	Failed   []string `json:"failed"`
	Known    []string `json:"known"`
	Covers   []string `json:"covers"`
	Panic    string   `json:"panic"`
	TagErr   string   `json:"tagerr"`
	AssumeKO bool     `json:"assume_ko"`
	raw      string
}

var entryRe = regexp.MustCompile(`(?m)^func (H_\w+)\(\)`)

// writeReplayOverlay generates the entry registry for a harness directory and returns the
// path of an overlay JSON usable with go test -overlay.
func writeReplayOverlay(tmp string, files map[string]string) (string, error) {
	byDir := map[string][]string{}
	repl := map[string]string{}
	for virt, real := range files {
		repl[virt] = real
		if strings.HasSuffix(virt, "_test.go") {
			continue
		}
		b, err := os.ReadFile(real)
		if err != nil {
			return "", err
		}
		d := filepath.Dir(virt)
		for _, m := range entryRe.FindAllStringSubmatch(string(b), -1) {
			byDir[d] = append(byDir[d], m[1])
		}
		if _, ok := byDir[d]; !ok {
			byDir[d] = nil
		}
	}
	for d, names := range byDir {
		sort.Strings(names)
		pkgName := ""
		for virt, real := range files {
			if filepath.Dir(virt) == d {
				b, _ := os.ReadFile(real)
				if m := regexp.MustCompile(`(?m)^package (\w+)`).FindSubmatch(b); m != nil {
					pkgName = string(m[1])
					break
				}
			}
		}
		var sb strings.Builder
		fmt.Fprintf(&sb, "package %s\n\nfunc vEntry(name string) func() {\n\tswitch name {\n", pkgName)
		for _, n := range names {
			fmt.Fprintf(&sb, "\tcase %q:\n\t\treturn %s\n", n, n)
		}
		sb.WriteString("\t}\n\treturn nil\n}\n")
		gen := filepath.Join(tmp, strings.ReplaceAll(strings.TrimPrefix(d, "/"), "/", "_")+"_entries.go")
		if err := os.WriteFile(gen, []byte(sb.String()), 0o644); err != nil {
			return "", err
		}
		repl[filepath.Join(d, "zz_verif_entries_gen.go")] = gen
	}
	ov := filepath.Join(tmp, "overlay.json")
	b, _ := json.Marshal(map[string]interface{}{"Replace": repl})
	if err := os.WriteFile(ov, b, 0o644); err != nil {
		return "", err
	}
	return ov, nil
}

func pkgDirOf(pkg string) string {
	rel := strings.TrimPrefix(pkg, "github.com/nspcc-dev/dbft")
	rel = strings.TrimPrefix(rel, "/")
	if rel == "" {
		return "."
	}
	return "./" + rel
}

// nativeReplay runs the vector against the natively compiled code.
// simReplay: a C17 counterexample says that the application's event loop leaves the library
// without what its contract needs (no Reset after a block, waiting on a stale timer channel).
// It is replayed against the real program: the simulation is built from repoDir and run for
// 13 s (block interval 5 s) in three configurations (4 validators; a single validator; 4
// validators, a watcher and a blocked validator); the violation reproduces iff some node of
// some configuration does not get beyond height 1. The runs are sequential (the program binds
// a fixed debug port) and done once per check run.
func simReplay(v string) (*replayOutcome, error) {
	simReplayOnce.Do(func() {
		var notes []string
		stalled := false
		for _, cfg := range [][]string{{"-count", "4", "-watchers", "0"}, {"-count", "1", "-watchers", "0"}, {"-count", "4", "-watchers", "1", "-blocked", "2"}} {
			args := append([]string{"run", "./internal/simulation"}, cfg...)
			args = append(args, "-duration", "13s")
			cmd := exec.Command("go", args...)
			cmd.Dir = repoDir
			out, _ := cmd.CombinedOutput()
			re := regexp.MustCompile(`received block\s*\{"id": (\d+), "height": (\d+)`)
			maxH := map[string]int{}
			for _, m := range re.FindAllStringSubmatch(string(out), -1) {
				h, _ := strconv.Atoi(m[2])
				if h > maxH[m[1]] {
					maxH[m[1]] = h
				}
			}
			if len(maxH) == 0 {
				simReplayErr = fmt.Errorf("the simulation (%v) did not accept any block in 13 s:\n%s", cfg, tail(string(out), 10))
				return
			}
			low := 1 << 30
			for _, h := range maxH {
				if h < low {
					low = h
				}
			}
			notes = append(notes, fmt.Sprintf("real simulation %v: %d nodes, lowest height reached %d", cfg, len(maxH), low))
			if low < 2 {
				stalled = true
			}
		}
		simReplayRes = &replayOutcome{Covers: notes}
		if stalled {
			// some node stopped extending its chain after the first block
			simReplayRes.Failed = []string{"C17.reinitialised", "C17.timerchannel", "C17.height", "C17.ledger"}
		}
	})
	if simReplayErr != nil {
		return &replayOutcome{}, simReplayErr
	}
	return simReplayRes, nil
}

var (
	simReplayOnce sync.Once
	simReplayRes  *replayOutcome
	simReplayErr  error
)

func nativeReplay(vecPath, pkg string) (*replayOutcome, error) {
	if strings.HasSuffix(pkg, "internal/simulation") {
		return simReplay(vecPath)
	}
	tmp, err := os.MkdirTemp("", "gosx-replay-")
	if err != nil {
		return nil, err
	}
	defer os.RemoveAll(tmp)
	files, _ := overlayFiles()
	ov, err := writeReplayOverlay(tmp, files)
	if err != nil {
		return nil, err
	}
	cmd := exec.Command("go", "test", "-count=1", "-vet=off", "-overlay", ov, "-run", "^TestVerifReplay$", "-v", pkgDirOf(pkg))
	cmd.Dir = repoDir
	cmd.Env = append(os.Environ(), "VERIF_REPLAY="+vecPath)
	out, _ := cmd.CombinedOutput()
	ro := &replayOutcome{raw: string(out)}
	for _, l := range strings.Split(string(out), "\n") {
		if i := strings.Index(l, "REPLAY-RESULT "); i >= 0 {
			if err := json.Unmarshal([]byte(l[i+len("REPLAY-RESULT "):]), ro); err != nil {
				return ro, fmt.Errorf("bad REPLAY-RESULT line: %v", err)
			}
			return ro, nil
		}
	}
	return ro, fmt.Errorf("no REPLAY-RESULT line in go test output:\n%s", tail(string(out), 30))
}

func tail(s string, n int) string {
	ls := strings.Split(strings.TrimRight(s, "\n"), "\n")
	if len(ls) > n {
		ls = ls[len(ls)-n:]
	}
	return strings.Join(ls, "\n")
}

func writeVector(prop string, pkg string, v *Violation) (string, error) {
	vec := replayVec{Entry: v.Entry, Pkg: pkg, Params: v.Params, ID: v.ID, Inputs: v.Inputs, UFs: v.UFs}
	b, _ := json.MarshalIndent(vec, "", " ")
	sum := sha256.Sum256(b)
	dir := filepath.Join(verifDir, "replays", prop)
	if err := os.MkdirAll(dir, 0o755); err != nil {
		return "", err
	}
	name := fmt.Sprintf("%s-%x.json", sanitize(v.ID), sum[:5])
	p := filepath.Join(dir, name)
	return p, os.WriteFile(p, b, 0o644)
}

func reproduced(v *Violation, ro *replayOutcome) bool {
	if ro == nil || ro.AssumeKO {
		return false
	}
	// the vector ends at the violated assertion; the native run goes on and may ask for more
	if ro.TagErr != "" && !strings.HasPrefix(ro.TagErr, "input vector exhausted") {
		return false
	}
	switch {
	case v.ID == "PANIC":
		return ro.Panic != ""
	case strings.HasPrefix(v.ID, "KNOWN:"):
		for _, k := range ro.Known {
			if k == strings.TrimPrefix(v.ID, "KNOWN:") {
				return true
			}
		}
		return false
	}
	for _, f := range ro.Failed {
		if f == v.ID || strings.HasPrefix(f, v.ID+".") {
			return true
		}
	}
	return false
}

// ---------------------------------------------------------------------------

func cmdReplay(args []string) int {
	if len(args) < 1 {
		fmt.Fprintln(os.Stderr, "usage: gosx replay <vector.json>")
		return 2
	}
	b, err := os.ReadFile(args[0])
	if err != nil {
		fmt.Fprintln(os.Stderr, err)
		return 2
	}
	var vec replayVec
	if err := json.Unmarshal(b, &vec); err != nil {
		fmt.Fprintln(os.Stderr, err)
		return 2
	}
	ro, err := nativeReplay(args[0], vec.Pkg)
	if err != nil {
		fmt.Fprintln(os.Stderr, err)
		return 2
	}
	v := &Violation{ID: vec.ID}
	fmt.Printf("replay of %s (%s): failed=%v known=%v panic=%q tagerr=%q assume_ko=%v\n", args[0], vec.ID, ro.Failed, ro.Known, ro.Panic, ro.TagErr, ro.AssumeKO)
	if reproduced(v, ro) {
		fmt.Println("REPRODUCED")
		return 1
	}
	fmt.Println("NOT REPRODUCED")
	return 0
}

func cmdCheck(args []string) int {
	fs := flag.NewFlagSet("check", flag.ExitOnError)
	tier := fs.String("tier", os.Getenv("VERIF_TIER"), "quick|thorough")
	verbose := fs.Bool("v", false, "progress on stderr")
	noReplay := fs.Bool("no-replay", false, "do not replay counterexamples natively (debug)")
	fs.Parse(args)
	if fs.NArg() < 1 {
		fmt.Fprintln(os.Stderr, "usage: gosx check [-tier quick|thorough] <property>")
		return 2
	}
	prop := fs.Arg(0)
	if *tier == "" {
		*tier = "quick"
	}
	seed := 0
	if s := os.Getenv("VERIF_SEED"); s != "" {
		seed, _ = strconv.Atoi(s)
	}
	plan := planFor(prop, *tier)
	if plan == nil {
		fmt.Fprintf(os.Stderr, "no plan for property %s\n", prop)
		return 2
	}
	t0 := time.Now()
	evDir := "evidence"
	if os.Getenv("VERIF_REPO") != "" || os.Getenv("VERIF_EVIDENCE_SCRATCH") != "" {
		evDir = "evidence_scratch" // runs against a scratch worktree never touch the registered evidence
	}
	evPath := filepath.Join(verifDir, evDir, prop+".json")
	os.MkdirAll(filepath.Dir(evPath), 0o755)
	os.Remove(evPath)

	p, err := loadProgram(plan.Patterns...)
	if err != nil {
		fmt.Fprintf(os.Stderr, "cannot load /repo: %v\n", err)
		writeEvidence(evPath, plan, seed, nil, nil, time.Since(t0).Seconds(), 0, "load failure: "+err.Error(), 0, nil)
		return 2
	}
	results := runJobs(p, plan.Jobs, numWorkers(), *verbose)

	known := loadKnownFindings()
	isKnown := func(id string) *KnownFinding {
		for i := range known {
			if known[i].ID == id && known[i].Property == prop && known[i].Status == "known" {
				return &known[i]
			}
		}
		return nil
	}

	exit := 0
	var problems []string
	violations := 0
	replayed := 0
	var violLines []string
	knownPrinted := map[string]bool{}
	seenViol := map[string]bool{}
	for ji, r := range results {
		job := plan.Jobs[ji]
		if r.Incomplete != "" {
			problems = append(problems, fmt.Sprintf("%s: incomplete: %s", job, r.Incomplete))
		}
		seenIE := map[string]bool{}
		for _, ie := range r.Internal {
			if !seenIE[ie] {
				seenIE[ie] = true
				problems = append(problems, fmt.Sprintf("%s: %s", job, ie))
			}
		}
		if r.Cut > 0 {
			problems = append(problems, fmt.Sprintf("%s: %d paths hit an unwinding bound", job, r.Cut))
		}
		for id, a := range r.Asserts {
			if a.Undecided > 0 {
				problems = append(problems, fmt.Sprintf("%s: obligation %s undecided on %d paths (solver unknown/timeout)", job, id, a.Undecided))
			}
		}
		for _, v := range r.Violations {
			if v.ID == "PANIC" && !plan.PanicsCount {
				continue
			}
			kid := strings.TrimPrefix(v.ID, "KNOWN:")
			kf := (*KnownFinding)(nil)
			if strings.HasPrefix(v.ID, "KNOWN:") {
				kf = isKnown(kid)
				if kf != nil && knownPrinted[kid] {
					continue
				}
			} else if seenViol[v.ID+"|"+v.Where] {
				continue
			}
			vecPath, err := writeVector(prop, job.Pkg, v)
			if err != nil {
				problems = append(problems, "cannot write replay vector: "+err.Error())
				continue
			}
			ok := true
			var ro *replayOutcome
			if !*noReplay {
				var rerr error
				ro, rerr = nativeReplay(vecPath, job.Pkg)
				replayed++
				ok = rerr == nil && reproduced(v, ro)
				if !ok {
					detail := ""
					if rerr != nil {
						detail = rerr.Error()
					} else {
						detail = fmt.Sprintf("failed=%v known=%v panic=%q tagerr=%q assume_ko=%v", ro.Failed, ro.Known, ro.Panic, ro.TagErr, ro.AssumeKO)
					}
					problems = append(problems, fmt.Sprintf("ENCODER-DISAGREEMENT: %s %s: solver model does not reproduce natively (%s); vector %s", job, v.ID, detail, vecPath))
					continue
				}
			}
			if kf != nil {
				knownPrinted[kid] = true
				fmt.Printf("KNOWN-FINDING: property=%s %s %s (replay=%s)\n", prop, kid, kf.What, vecPath)
				continue
			}
			seenViol[v.ID+"|"+v.Where] = true
			violations++
			line := fmt.Sprintf("VIOLATION property=%s replay=%s", prop, vecPath)
			violLines = append(violLines, line)
			fmt.Println(line)
			fmt.Printf("  obligation=%s harness=%s %s\n", kid, job, v.Where)
			exit = 1
		}
	}
	// vacuity
	covers := map[string]int{}
	asserts := map[string]*AssertStat{}
	for _, r := range results {
		for k, v := range r.Covers {
			covers[k] += v
		}
		for k, a := range r.Asserts {
			t := asserts[k]
			if t == nil {
				t = &AssertStat{}
				asserts[k] = t
			}
			t.Checked += a.Checked
			t.Trivial += a.Trivial
			t.Unsat += a.Unsat
			t.Sat += a.Sat
			t.Undecided += a.Undecided
		}
	}
	for _, c := range plan.MustCover {
		if covers[c] == 0 {
			problems = append(problems, "vacuity: witness "+c+" was never reached")
		}
	}
	for _, a := range plan.MustAssert {
		if asserts[a] == nil || asserts[a].Checked == 0 {
			problems = append(problems, "vacuity: obligation "+a+" was never reached")
		}
	}
	wall := time.Since(t0).Seconds()
	note := ""
	if len(problems) > 0 {
		note = strings.Join(problems, "; ")
	}
	writeEvidence(evPath, plan, seed, results, asserts, wall, violations, note, replayed, covers)
	if exit == 0 && len(problems) > 0 {
		for _, pr := range problems {
			fmt.Println("INCONCLUSIVE:", pr)
		}
		return 2
	}
	for _, pr := range problems {
		fmt.Println("NOTE:", pr)
	}
	if exit == 0 {
		nobl, ndis := 0, 0
		for _, a := range asserts {
			nobl += a.Checked
			ndis += a.Trivial + a.Unsat
		}
		fmt.Printf("OK property=%s tier=%s jobs=%d obligations=%d discharged=%d wall=%.1fs\n", prop, *tier, len(plan.Jobs), nobl, ndis, wall)
	}
	return exit
}

func writeEvidence(path string, plan *Plan, seed int, results []*JobResult, asserts map[string]*AssertStat, wall float64, violations int, note string, replayed int, covers map[string]int) {
	paths, instrs, queries, forks, merges, killed := 0, 0, 0, 0, 0, 0
	var sdur time.Duration
	qsat, qunsat, qunk := 0, 0, 0
	funcs := map[string]int{}
	backends := map[string]int{}
	var samples []interface{}
	knownHits := map[string]int{}
	for i, r := range results {
		paths += r.Paths
		instrs += r.Instrs
		queries += r.Solver.Queries
		qsat += r.Solver.Sat
		qunsat += r.Solver.Unsat
		qunk += r.Solver.Unknown
		sdur += r.Solver.Dur
		forks += r.Forks
		merges += r.Merges
		killed += r.Killed
		for k, v := range r.Funcs {
			funcs[k] += v
		}
		for k, v := range r.Solver.ByBackend {
			backends[k] += v
		}
		for k, v := range r.Known {
			knownHits[k] += v
		}
		if len(samples) < 6 {
			as := map[string]string{}
			for id, a := range r.Asserts {
				as[id] = fmt.Sprintf("reached %d: unsat %d, folded %d, sat %d, undecided %d", a.Checked, a.Unsat, a.Trivial, a.Sat, a.Undecided)
			}
			samples = append(samples, map[string]interface{}{"job": plan.Jobs[i].String(), "paths": r.Paths, "solver_queries": r.Solver.Queries, "wall_s": r.WallS, "obligations": as})
		}
	}
	nobl, ndis, nsolver := 0, 0, 0
	oblig := map[string]interface{}{}
	for id, a := range asserts {
		nobl += a.Checked
		ndis += a.Trivial + a.Unsat
		nsolver += a.Unsat
		oblig[id] = a
	}
	// functions of /repo that were symbolically executed (harness and stdlib excluded)
	var encoded []string
	for k := range funcs {
		if strings.Contains(k, "nspcc-dev/dbft") && !strings.Contains(k, ".v") && !strings.Contains(k, ".H_") {
			encoded = append(encoded, k)
		}
	}
	sort.Strings(encoded)
	level := "model_checking"
	cov := map[string]interface{}{
		"states":                        maxInt(paths, 1),
		"transitions":                   maxInt(instrs, 1),
		"traces_validated_against_impl": replayed,
		"samples":                       samples,
		"obligations":                   nobl,
		"discharged":                    ndis,
		"evaluations":                   maxInt(queries, 1),
		"distinct_nontrivial":           nsolver,
		"rule":                          "evaluations = SMT queries sent; distinct_nontrivial = obligation instances (assertion id x symbolic path) whose negation the solver proved unsat under the path condition (instances folded to true by the term builder are not counted)",
		"checker_cmd":                   "bin/gosx check -tier " + plan.Tier + " " + plan.Property,
		"trusted_base":                  []string{"golang.org/x/tools/go/ssa v0.29.0 lowering", "gosx symbolic executor (/verif/engine)", "harness models and stubs (/verif/harness)", "z3 4.8.12 / cvc5 1.0.3 / z3 5.1"},
		"explanation":                   plan.Explanation,
		"exhaustive":                    false,
		"symbolic_paths":                paths,
		"ssa_instructions_executed":     instrs,
		"forks":                         forks,
		"merges":                        merges,
		"paths_pruned_by_assumption":    killed,
		"solver_queries":                map[string]int{"total": queries, "sat": qsat, "unsat": qunsat, "unknown": qunk},
		"solver_time_s":                 sdur.Seconds(),
		"solver_backends":               backends,
		"functions_encoded":             encoded,
		"obligation_verdicts":           oblig,
		"bounds":                        plan.Bounds,
		"outside_the_claim":             plan.Outside,
		"witnesses_reached":             covers,
		"known_finding_hits":            knownHits,
		"jobs":                          len(plan.Jobs),
	}
	if note != "" {
		cov["run_notes"] = note
	}
	ev := map[string]interface{}{
		"property_id": plan.Property,
		"tier":        plan.Tier,
		"seed":        seed,
		"level":       level,
		"coverage":    cov,
		"assumptions": plan.Assumptions,
		"wall_s":      wall,
		"violations":  violations,
	}
	b, _ := json.MarshalIndent(ev, "", " ")
	os.WriteFile(path, b, 0o644)
}

func maxInt(a, b int) int {
	if a > b {
		return a
	}
	return b
}
