package main

// replayVec is a concrete input vector (from a solver model): per-tag value sequences and UF
// tables. It is used by the native replay (through the harness intrinsics) and by the
// executor's concrete mode (translator validation).
type replayVec struct {
	Entry  string            `json:"entry"`
	Pkg    string            `json:"pkg"`
	Params map[string]int    `json:"params"`
	ID     string            `json:"id"`
	Inputs []InputVal        `json:"inputs"`
	UFs    []UFVal           `json:"ufs"`
	pos    int
	fresh  uint64
	extra  map[string]uint64
}

func (r *replayVec) next(tag string) uint64 {
	if r.pos < len(r.Inputs) {
		v := r.Inputs[r.pos]
		r.pos++
		return v.V
	}
	return 0
}

func ufKey(name string, args []uint64) string {
	k := name
	for _, a := range args {
		k += "," + itoa(a)
	}
	return k
}

func itoa(u uint64) string {
	if u == 0 {
		return "0"
	}
	var b [20]byte
	i := len(b)
	for u > 0 {
		i--
		b[i] = byte('0' + u%10)
		u /= 10
	}
	return string(b[i:])
}

func (r *replayVec) uf(name string, args []uint64) uint64 {
	for _, u := range r.UFs {
		if u.Name == name && len(u.Args) == len(args) {
			same := true
			for i := range args {
				if u.Args[i] != args[i] {
					same = false
					break
				}
			}
			if same {
				return u.V
			}
		}
	}
	if r.extra == nil {
		r.extra = map[string]uint64{}
	}
	k := ufKey(name, args)
	if v, ok := r.extra[k]; ok {
		return v
	}
	if len(name) > 1 && name[1] == 'H' { // injective hash: fresh value
		r.fresh++
		v := 0xF0000000 + r.fresh
		r.extra[k] = v
		return v
	}
	r.extra[k] = 0
	return 0
}

