package main

import (
	"fmt"
	"go/types"

	"golang.org/x/tools/go/ssa"
)

// Value is a symbolic Go value. Scalars are *Term; everything else is one of the types below.
// Aggregates are immutable trees (copy on write), the heap maps object ids to values.
type Value interface{}

// PtrV: pointer to (object, path). obj < 0 means the nil pointer. The shape is concrete, only
// nil-ness may be symbolic (nonnil).
//
// A pointer may also be a guarded choice between several objects (the result of merging two
// states in which a cell points to different objects): the primary alternative (obj, path)
// holds under guard nonnil, the others under their own guards; guards are mutually exclusive
// and the pointer is nil iff none holds. Loads through such a pointer are ite-merged, stores
// are conditional updates of every alternative.
type PtrV struct {
	obj    int
	path   []int
	nonnil *Term
	more   []PtrAlt
}

type PtrAlt struct {
	obj  int
	path []int
	g    *Term
}

type IfaceV struct {
	typ    types.Type // dynamic type; nil for the nil interface
	val    Value
	nonnil *Term
}

type SliceV struct {
	arr         int // object holding an ArrayV; -1 for nil slice
	off, length int
	capacity    int
}

type StructV struct{ f []Value }
type ArrayV struct{ e []Value }
type TupleV []Value
type StringV struct{ s string }

// TimeV models time.Time: either the zero Time (zero true) or an instant ns nanoseconds after
// the Unix epoch; instants are assumed to lie in [0, 2^62).
type TimeV struct {
	ns   *Term
	zero *Term
}
type FuncV struct {
	fn   *ssa.Function // nil => nil func
	bind []Value
}
type MapV struct{ obj int } // obj<0 nil map
type MapData struct {
	keys []Value
	vals []Value
}
type OpaqueV struct{ what string }
type RangeIter struct {
	m    int
	pos  int
	keys []Value // snapshot of the keys at range start
}

// ChanData models a buffered channel of time.Time / small values (timer package only).
type ChanData struct {
	capacity int
	q        []Value
	// runtime timer (time.NewTimer): the channel C of a timer that delivers one value at
	// `deadline` (wall-clock ns) unless stopped before (Go >= 1.23: no stale value after Stop)
	timer    bool
	deadline *Term
	stopped  bool
}

// UnixNano of the zero time.Time as computed by Go (the value is formally undefined).
const zeroTimeNS = uint64(0xA1B203EB3D1A0000)

func isTimeType(t types.Type) bool {
	if n, ok := t.(*types.Named); ok {
		o := n.Obj()
		return o.Pkg() != nil && o.Pkg().Path() == "time" && o.Name() == "Time"
	}
	return false
}

func intWidth(b *types.Basic) (w int, signed bool) {
	switch b.Kind() {
	case types.Int8:
		return 8, true
	case types.Int16:
		return 16, true
	case types.Int32, types.UntypedRune:
		return 32, true
	case types.Int64, types.Int, types.UntypedInt:
		return 64, true
	case types.Uint8:
		return 8, false
	case types.Uint16:
		return 16, false
	case types.Uint32:
		return 32, false
	case types.Uint64, types.Uint, types.Uintptr:
		return 64, false
	}
	return 0, false
}

func (tb *TB) zeroValue(t types.Type) Value {
	if isTimeType(t) {
		return TimeV{tb.mkConst(64, zeroTimeNS), tb.mkBool(true)}
	}
	switch u := t.Underlying().(type) {
	case *types.Basic:
		if u.Info()&types.IsBoolean != 0 {
			return tb.mkBool(false)
		}
		if u.Info()&types.IsString != 0 {
			return StringV{""}
		}
		if w, _ := intWidth(u); w > 0 {
			return tb.mkConst(w, 0)
		}
		if u.Kind() == types.UnsafePointer {
			return PtrV{obj: -1, nonnil: tb.mkBool(false)}
		}
		if u.Kind() == types.UntypedNil {
			return PtrV{obj: -1, nonnil: tb.mkBool(false)}
		}
		return OpaqueV{"basic:" + u.String()}
	case *types.Pointer:
		return PtrV{obj: -1, nonnil: tb.mkBool(false)}
	case *types.Slice:
		return SliceV{arr: -1}
	case *types.Map:
		return MapV{obj: -1}
	case *types.Interface:
		return IfaceV{nonnil: tb.mkBool(false)}
	case *types.Signature:
		return FuncV{}
	case *types.Chan:
		return PtrV{obj: -1, nonnil: tb.mkBool(false)}
	case *types.Struct:
		f := make([]Value, u.NumFields())
		for i := range f {
			f[i] = tb.zeroValue(u.Field(i).Type())
		}
		return StructV{f}
	case *types.Array:
		e := make([]Value, u.Len())
		z := tb.zeroValue(u.Elem())
		for i := range e {
			e[i] = z
		}
		return ArrayV{e}
	case *types.Tuple:
		tv := make(TupleV, u.Len())
		for i := range tv {
			tv[i] = tb.zeroValue(u.At(i).Type())
		}
		return tv
	}
	panic(fmt.Sprintf("zeroValue: %T %v", t.Underlying(), t))
}

// getPath / setPath navigate immutable aggregate trees.
func getPath(v Value, path []int) Value {
	for _, i := range path {
		switch a := v.(type) {
		case StructV:
			v = a.f[i]
		case ArrayV:
			if i < 0 || i >= len(a.e) {
				panic(execPanic{"index out of range (array path)"})
			}
			v = a.e[i]
		default:
			panic(fmt.Sprintf("getPath through %T", v))
		}
	}
	return v
}

func setPath(v Value, path []int, nv Value) Value {
	if len(path) == 0 {
		return nv
	}
	i := path[0]
	switch a := v.(type) {
	case StructV:
		f := make([]Value, len(a.f))
		copy(f, a.f)
		f[i] = setPath(a.f[i], path[1:], nv)
		return StructV{f}
	case ArrayV:
		if i < 0 || i >= len(a.e) {
			panic(execPanic{"index out of range (array store)"})
		}
		e := make([]Value, len(a.e))
		copy(e, a.e)
		e[i] = setPath(a.e[i], path[1:], nv)
		return ArrayV{e}
	}
	panic(fmt.Sprintf("setPath through %T", v))
}

// execPanic is a Go run-time panic on the explored path (implicit-panic obligation, C11).
type execPanic struct{ msg string }
