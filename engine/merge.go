package main

import (
	"fmt"
	"go/types"

	"golang.org/x/tools/go/ssa"
)

// ipdom returns the immediate post-dominator of b in fn (nil if it is the virtual exit).
func (x *Exec) ipdom(fn *ssa.Function, b *ssa.BasicBlock) *ssa.BasicBlock {
	m, ok := x.pdom[fn]
	if !ok {
		m = computeIPdom(fn)
		x.pdom[fn] = m
	}
	return m[b]
}

func computeIPdom(fn *ssa.Function) map[*ssa.BasicBlock]*ssa.BasicBlock {
	n := len(fn.Blocks)
	exit := n // virtual exit
	type set []bool
	full := func() set {
		s := make(set, n+1)
		for i := range s {
			s[i] = true
		}
		return s
	}
	pd := make([]set, n+1)
	for i := 0; i < n; i++ {
		pd[i] = full()
	}
	pd[exit] = make(set, n+1)
	pd[exit][exit] = true
	succs := func(i int) []int {
		b := fn.Blocks[i]
		if len(b.Succs) == 0 {
			return []int{exit}
		}
		r := make([]int, len(b.Succs))
		for k, s := range b.Succs {
			r[k] = s.Index
		}
		return r
	}
	changed := true
	for changed {
		changed = false
		for i := n - 1; i >= 0; i-- {
			ns := full()
			for _, s := range succs(i) {
				for k := range ns {
					ns[k] = ns[k] && pd[s][k]
				}
			}
			ns[i] = true
			for k := range ns {
				if ns[k] != pd[i][k] {
					changed = true
				}
			}
			pd[i] = ns
		}
	}
	res := map[*ssa.BasicBlock]*ssa.BasicBlock{}
	for i := 0; i < n; i++ {
		best := -1
		for c := 0; c <= n; c++ {
			if c == i || !pd[i][c] {
				continue
			}
			ok := true
			for o := 0; o <= n; o++ {
				if o == i || o == c || !pd[i][o] {
					continue
				}
				if !pd[c][o] {
					ok = false
					break
				}
			}
			if ok {
				best = c
				break
			}
		}
		if best >= 0 && best < n {
			res[fn.Blocks[i]] = fn.Blocks[best]
		}
	}
	return res
}

// tryMerge explores both arms of the symbolic branch at the top of st up to the join block j
// (or, when j is nil, up to the return into the caller). All states that arrive are merged
// n-way as far as their shapes allow. It returns (nil, merged) when everything collapsed into
// one state, otherwise the (partially merged) list.
func (x *Exec) tryMerge(st *State, c *Term, j *ssa.BasicBlock) ([]*State, *State) {
	depth := len(st.frames)
	fn := x.top(st).fn
	nphi := 0
	if j != nil {
		for _, ins := range j.Instrs {
			if _, ok := ins.(*ssa.Phi); ok {
				nphi++
			} else {
				break
			}
		}
	}
	var callerFrame *Frame
	callerIP := 0
	if depth >= 2 {
		callerFrame = st.frames[depth-2]
		callerIP = callerFrame.ip
	}
	stopJ := func(s *State) bool {
		if j == nil {
			if len(s.frames) != depth-1 || depth < 2 {
				return false
			}
			t := x.top(s)
			return t.fn == callerFrame.fn && t.block == callerFrame.block && t.ip == callerIP+1
		}
		if len(s.frames) != depth {
			return false
		}
		t := x.top(s)
		return t.fn == fn && t.block == j && t.ip == nphi
	}
	base := len(st.pc)
	var all []*State
	for _, b := range []bool{true, false} {
		cc := c
		if !b {
			cc = x.mkNot(c)
		}
		if x.feasible(st, c, cc) {
			ch := st.clone()
			ch.pc = append(ch.pc, cc)
			ch.learn(cc)
			ch.replay = []bool{b}
			x.res.Forks++
			all = append(all, x.explore(ch, stopJ)...)
		}
	}
	out := x.mergeGroup(st, all, base)
	if len(out) == 1 {
		return nil, out[0]
	}
	return out, nil
}

// mergeGroup merges the states in all (children of st that reached the same program point)
// n-way as far as their shapes allow; base is len(st.pc).
func (x *Exec) mergeGroup(st *State, all []*State, base int) []*State {
	if len(all) == 0 {
		return nil
	}
	if len(all) == 1 {
		all[0].replay = nil
		return all
	}
	fn := x.top(st).fn
	type group struct {
		s    *State
		cond *Term
	}
	var groups []*group
	for _, s := range all {
		cond := x.mkBool(true)
		for _, t := range s.pc[base:] {
			cond = x.mkAnd(cond, t)
		}
		placed := false
		for _, g := range groups {
			if m, why := x.mergeStates(s, g.s, cond); m != nil {
				g.s = m
				g.cond = x.mkOr(cond, g.cond)
				placed = true
				x.res.Merges++
				break
			} else if why != "" {
				x.res.MergeFail[fmt.Sprintf("%s %s#%d", why, fn.Name(), x.top(st).block.Index)]++
			}
		}
		if !placed {
			groups = append(groups, &group{s: s, cond: cond})
		}
	}
	var out []*State
	for _, g := range groups {
		g.s.pc = append(append([]*Term(nil), st.pc...), g.cond)
		if g.cond.isTrue() {
			g.s.pc = g.s.pc[:len(st.pc)]
		}
		g.s.replay = nil
		out = append(out, g.s)
	}
	return out
}

func sameSlice(a, b []Value) bool {
	if len(a) != len(b) {
		return false
	}
	return len(a) == 0 || &a[0] == &b[0]
}

// mergeStates builds ite(c, a, b) cell by cell; nil if the shapes differ.
func (x *Exec) mergeStates(a, b *State, c *Term) (*State, string) {
	if len(a.frames) != len(b.frames) {
		return nil, "frames"
	}
	if len(a.inputs) != len(b.inputs) {
		return nil, "inputs"
	}
	for i := range a.inputs {
		if a.inputs[i].T != b.inputs[i].T {
			return nil, "inputs"
		}
	}
	if a.cut != b.cut {
		return nil, "cut"
	}
	m := &State{heap: make(map[int]Value, len(a.heap)), globals: map[*ssa.Global]int{}, nforks: a.nforks, known: map[*Term]bool{}, inputs: a.inputs, cut: a.cut}
	for k, v := range a.known {
		if w, ok := b.known[k]; ok && w == v {
			m.known[k] = v
		}
	}
	for i := range a.frames {
		fa, fb := a.frames[i], b.frames[i]
		if fa.fn != fb.fn || fa.block != fb.block || fa.ip != fb.ip || len(fa.defers) != len(fb.defers) || fa.call != fb.call {
			return nil, "frame-shape"
		}
		nf := *fa
		nf.env = make(map[ssa.Value]Value, len(fa.env))
		for k, va := range fa.env {
			vb, ok := fb.env[k]
			if !ok {
				nf.env[k] = va
				continue
			}
			mv, ok := x.mergeVal(va, vb, c)
			if !ok {
				// a dead register may differ; keep the merge only if the value is not
				// needed later: be conservative and fail.
				return nil, "env:" + k.Name()
			}
			nf.env[k] = mv
		}
		for k, vb := range fb.env {
			if _, ok := fa.env[k]; !ok {
				nf.env[k] = vb
			}
		}
		nf.defers = append([]FuncCall(nil), fa.defers...)
		m.frames = append(m.frames, &nf)
	}
	for id, va := range a.heap {
		vb, ok := b.heap[id]
		if !ok {
			m.heap[id] = va
			continue
		}
		mv, ok := x.mergeVal(va, vb, c)
		if !ok {
			return nil, "heap"
		}
		m.heap[id] = mv
	}
	for id, vb := range b.heap {
		if _, ok := a.heap[id]; !ok {
			m.heap[id] = vb
		}
	}
	for g, id := range a.globals {
		m.globals[g] = id
	}
	for g, id := range b.globals {
		if o, ok := m.globals[g]; ok && o != id {
			return nil, "globals"
		}
		m.globals[g] = id
	}
	return m, ""
}

func (x *Exec) mergeVal(a, b Value, c *Term) (Value, bool) {
	switch av := a.(type) {
	case nil:
		return nil, b == nil
	case *Term:
		bv, ok := b.(*Term)
		if !ok || av.w != bv.w {
			return nil, false
		}
		return x.mkIte(c, av, bv), true
	case PtrV:
		bv, ok := b.(PtrV)
		if !ok {
			return nil, false
		}
		if av.obj < 0 && bv.obj < 0 {
			return av, true
		}
		var al []PtrAlt
		add := func(o int, p []int, g *Term) {
			if g.isFalse() {
				return
			}
			for k := range al {
				if al[k].obj == o && samePath(al[k].path, p) {
					al[k].g = x.mkOr(al[k].g, g)
					return
				}
			}
			al = append(al, PtrAlt{o, p, g})
		}
		for _, a := range x.alts(av) {
			add(a.obj, a.path, x.mkAnd(c, a.g))
		}
		nc := x.mkNot(c)
		for _, a := range x.alts(bv) {
			add(a.obj, a.path, x.mkAnd(nc, a.g))
		}
		if len(al) > 6 {
			return nil, false
		}
		return x.ptrFromAlts(al), true
	case IfaceV:
		bv, ok := b.(IfaceV)
		if !ok {
			return nil, false
		}
		switch {
		case av.typ == nil && bv.typ == nil:
			return av, true
		case av.typ == nil:
			return IfaceV{typ: bv.typ, val: bv.val, nonnil: x.mkIte(c, x.mkBool(false), bv.nonnil)}, true
		case bv.typ == nil:
			return IfaceV{typ: av.typ, val: av.val, nonnil: x.mkIte(c, av.nonnil, x.mkBool(false))}, true
		case types.Identical(av.typ, bv.typ):
			iv, ok := x.mergeVal(av.val, bv.val, c)
			if !ok {
				return nil, false
			}
			return IfaceV{typ: av.typ, val: iv, nonnil: x.mkIte(c, av.nonnil, bv.nonnil)}, true
		}
		return nil, false
	case StructV:
		bv, ok := b.(StructV)
		if !ok || len(av.f) != len(bv.f) {
			return nil, false
		}
		if sameSlice(av.f, bv.f) {
			return av, true
		}
		f := make([]Value, len(av.f))
		for i := range f {
			v, ok := x.mergeVal(av.f[i], bv.f[i], c)
			if !ok {
				return nil, false
			}
			f[i] = v
		}
		return StructV{f}, true
	case ArrayV:
		bv, ok := b.(ArrayV)
		if !ok || len(av.e) != len(bv.e) {
			return nil, false
		}
		if sameSlice(av.e, bv.e) {
			return av, true
		}
		e := make([]Value, len(av.e))
		for i := range e {
			v, ok := x.mergeVal(av.e[i], bv.e[i], c)
			if !ok {
				return nil, false
			}
			e[i] = v
		}
		return ArrayV{e}, true
	case TupleV:
		bv, ok := b.(TupleV)
		if !ok || len(av) != len(bv) {
			return nil, false
		}
		t := make(TupleV, len(av))
		for i := range t {
			v, ok := x.mergeVal(av[i], bv[i], c)
			if !ok {
				return nil, false
			}
			t[i] = v
		}
		return t, true
	case TimeV:
		bv, ok := b.(TimeV)
		if !ok {
			return nil, false
		}
		return TimeV{x.mkIte(c, av.ns, bv.ns), x.mkIte(c, av.zero, bv.zero)}, true
	case StringV:
		bv, ok := b.(StringV)
		return av, ok && bv.s == av.s
	case SliceV:
		bv, ok := b.(SliceV)
		if !ok {
			return nil, false
		}
		if av == bv {
			return av, true
		}
		// nil slice vs empty slice of length 0 cannot be told apart by len; keep strict
		return nil, false
	case symLenSlice:
		bv, ok := b.(symLenSlice)
		return av, ok && av.n == bv.n
	case symIndexPtr:
		bv, ok := b.(symIndexPtr)
		return av, ok && av.idx == bv.idx && av.base.obj == bv.base.obj && samePath(av.base.path, bv.base.path)
	case MapV:
		bv, ok := b.(MapV)
		return av, ok && av == bv
	case OpaqueV:
		_, ok := b.(OpaqueV)
		return av, ok
	case RangeIter:
		bv, ok := b.(RangeIter)
		if !ok || av.m != bv.m || av.pos != bv.pos || len(av.keys) != len(bv.keys) {
			return nil, false
		}
		for i := range av.keys {
			if !sameVal(av.keys[i], bv.keys[i]) {
				return nil, false
			}
		}
		return av, true
	case FuncV:
		bv, ok := b.(FuncV)
		if !ok || av.fn != bv.fn || len(av.bind) != len(bv.bind) {
			return nil, false
		}
		for i := range av.bind {
			if !sameVal(av.bind[i], bv.bind[i]) {
				return nil, false
			}
		}
		return av, true
	case MapData:
		bv, ok := b.(MapData)
		if !ok || len(av.keys) != len(bv.keys) {
			return nil, false
		}
		if sameSlice(av.keys, bv.keys) && sameSlice(av.vals, bv.vals) {
			return av, true
		}
		// same keys (syntactically), mergeable values
		vals := make([]Value, len(av.vals))
		for i := range av.keys {
			if !sameVal(av.keys[i], bv.keys[i]) {
				return nil, false
			}
			v, ok := x.mergeVal(av.vals[i], bv.vals[i], c)
			if !ok {
				return nil, false
			}
			vals[i] = v
		}
		return MapData{av.keys, vals}, true
	case ChanData:
		bv, ok := b.(ChanData)
		if !ok || av.capacity != bv.capacity || len(av.q) != len(bv.q) || av.timer != bv.timer || av.stopped != bv.stopped || av.deadline != bv.deadline {
			return nil, false
		}
		q := make([]Value, len(av.q))
		for i := range q {
			v, ok := x.mergeVal(av.q[i], bv.q[i], c)
			if !ok {
				return nil, false
			}
			q[i] = v
		}
		return ChanData{capacity: av.capacity, q: q, timer: av.timer, deadline: av.deadline, stopped: av.stopped}, true
	}
	return nil, false
}

func sameVal(a, b Value) bool {
	switch av := a.(type) {
	case nil:
		return b == nil
	case *Term:
		bv, ok := b.(*Term)
		return ok && av == bv
	case PtrV:
		bv, ok := b.(PtrV)
		if !ok || av.obj != bv.obj || !samePath(av.path, bv.path) || av.nonnil != bv.nonnil || len(av.more) != len(bv.more) {
			return false
		}
		for i := range av.more {
			if av.more[i].obj != bv.more[i].obj || !samePath(av.more[i].path, bv.more[i].path) || av.more[i].g != bv.more[i].g {
				return false
			}
		}
		return true
	case IfaceV:
		bv, ok := b.(IfaceV)
		if !ok || av.nonnil != bv.nonnil || (av.typ == nil) != (bv.typ == nil) {
			return false
		}
		return av.typ == nil || (types.Identical(av.typ, bv.typ) && sameVal(av.val, bv.val))
	case StructV:
		bv, ok := b.(StructV)
		if !ok || len(av.f) != len(bv.f) {
			return false
		}
		if sameSlice(av.f, bv.f) {
			return true
		}
		for i := range av.f {
			if !sameVal(av.f[i], bv.f[i]) {
				return false
			}
		}
		return true
	case SliceV:
		bv, ok := b.(SliceV)
		return ok && av == bv
	case MapV:
		bv, ok := b.(MapV)
		return ok && av == bv
	case StringV:
		bv, ok := b.(StringV)
		return ok && av == bv
	case TimeV:
		bv, ok := b.(TimeV)
		return ok && av.ns == bv.ns && av.zero == bv.zero
	case FuncV:
		bv, ok := b.(FuncV)
		return ok && av.fn == bv.fn && len(av.bind) == len(bv.bind)
	}
	return false
}
