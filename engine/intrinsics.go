package main

import (
	"fmt"
	"go/types"
	"strings"

	"golang.org/x/tools/go/ssa"
)

// Harness intrinsics: declared in the overlay files with ordinary Go bodies (so the same files
// compile natively for replay); the executor intercepts them by name.
var harnessIntrinsics = map[string]bool{
	"vBool": true, "vU8": true, "vU16": true, "vU32": true, "vU64": true, "vI64": true,
	"vAssume": true, "vAssert": true, "vCheck": true, "vCover": true, "vKnown": true, "vParam": true, "vWant": true,
	"vHash": true, "vUF": true, "vBytesOf": true, "vU64Of": true, "vMaybe": true, "vMaybeHV": true,
	"vTime": true, "vZeroTime": true, "vNs": true, "vSymLen": true, "vNote": true, "vCut": true,
	"vObserve": true, "vSleep": true, "vWall": true, "vSelectedOn": true,
	"vIsSymbolic": true, "vSubFail": true, "vMaybeRec": true, "vMaybeBlock": true, "vMaybePre": true, "vTimeZ": true,
}

func (x *Exec) newInput(st *State, tag string, w int) *Term {
	if x.concrete != nil {
		v := x.concrete.next(tag)
		t := x.mkConst(w, v)
		if w == 0 {
			t = x.mkBool(v != 0)
		}
		return t
	}
	t := x.mkVar(tag, w)
	st.inputs = append(st.inputs, Input{Tag: tag, T: t})
	return t
}

func sliceElems(st *State, v Value) []Value {
	s, ok := v.(SliceV)
	if !ok || s.arr < 0 {
		return nil
	}
	a := st.heap[s.arr].(ArrayV)
	return a.e[s.off : s.off+s.length]
}

func (x *Exec) intrinsic(st *State, fn *ssa.Function, args []Value, call *ssa.Call) (Value, bool) {
	name := fn.Name()
	if harnessIntrinsics[name] && fn.Pkg != nil && x.isRootPkg(fn.Pkg) {
		return x.harnessIntrinsic(st, name, args), true
	}
	full := fn.String()
	switch full {
	case "(time.Time).Sub":
		t, u := args[0].(TimeV), args[1].(TimeV)
		maxD := x.mkConst(64, uint64(1<<63-1))
		minD := x.mkConst(64, uint64(1)<<63)
		diff := x.mkBin("bvsub", t.ns, u.ns)
		// zero Time lies ~2000 years before any instant in [0,2^62): Sub saturates.
		r := x.mkIte(x.mkAnd(t.zero, u.zero), x.mkConst(64, 0),
			x.mkIte(u.zero, maxD, x.mkIte(t.zero, minD, diff)))
		return r, true
	case "(time.Time).UnixNano":
		t := args[0].(TimeV)
		return x.mkIte(t.zero, x.mkConst(64, zeroTimeNS), t.ns), true
	case "(time.Time).IsZero":
		return args[0].(TimeV).zero, true
	case "(time.Time).Add":
		t := args[0].(TimeV)
		return TimeV{x.mkBin("bvadd", t.ns, args[1].(*Term)), t.zero}, true
	case "(time.Time).Before":
		t, u := args[0].(TimeV), args[1].(TimeV)
		return x.mkCmp("bvslt", x.timeKey(t), x.timeKey(u)), true
	case "(time.Time).After":
		t, u := args[0].(TimeV), args[1].(TimeV)
		return x.mkCmp("bvsgt", x.timeKey(t), x.timeKey(u)), true
	case "time.Since":
		now := x.wallClock(st)
		return x.intrinsicMust(st, "(time.Time).Sub", now, args[0]), true
	case "time.Now":
		return x.wallClock(st), true
	case "time.Until":
		now := x.wallClock(st)
		return x.intrinsicMust(st, "(time.Time).Sub", args[0], now), true
	case "(time.Time).Equal":
		t, u := args[0].(TimeV), args[1].(TimeV)
		return x.mkEq(x.timeKey(t), x.timeKey(u)), true
	case "(time.Time).Compare":
		t, u := args[0].(TimeV), args[1].(TimeV)
		a, b := x.timeKey(t), x.timeKey(u)
		return x.mkIte(x.mkCmp("bvslt", a, b), x.mkConst(64, ^uint64(0)), x.mkIte(x.mkCmp("bvsgt", a, b), x.mkConst(64, 1), x.mkConst(64, 0))), true
	case "crypto/rand.Read":
		return TupleV{x.mkConst(64, 8), IfaceV{nonnil: x.mkBool(false)}}, true
	case "(encoding/binary.littleEndian).Uint64":
		return x.newInput(st, "nonce", 64), true
	case "(*go.uber.org/zap.Logger).Fatal":
		panic(killPath{"fatal"})
	case "(*go.uber.org/zap.Logger).Panic":
		panic(execPanic{"zap Logger.Panic"})
	}
	if strings.HasPrefix(full, "time.") || strings.HasPrefix(full, "(time.") || strings.HasPrefix(full, "(*time.") {
		if r, ok := x.timerIntrinsic(st, full, args, call); ok {
			return r, true
		}
		panic(internalErr{"unmodelled time function " + full})
	}
	return nil, false
}

func (x *Exec) intrinsicMust(st *State, full string, a, b Value) Value {
	switch full {
	case "(time.Time).Sub":
		t, u := a.(TimeV), b.(TimeV)
		maxD := x.mkConst(64, uint64(1<<63-1))
		minD := x.mkConst(64, uint64(1)<<63)
		diff := x.mkBin("bvsub", t.ns, u.ns)
		return x.mkIte(x.mkAnd(t.zero, u.zero), x.mkConst(64, 0),
			x.mkIte(u.zero, maxD, x.mkIte(t.zero, minD, diff)))
	}
	panic("intrinsicMust " + full)
}

func (x *Exec) timeKey(t TimeV) *Term {
	return x.mkIte(t.zero, x.mkConst(64, uint64(1)<<63), t.ns)
}

// wallClock: time.Now()/time.Since read the machine's wall clock: a fresh value per call,
// unrelated to the injected Timer (this is what makes C14 decidable). Ordering between
// successive readings is enforced (non-decreasing) through the per-state last reading.
func (x *Exec) wallClock(st *State) TimeV {
	t := x.newInput(st, "wallclock", 64)
	c := x.mkCmp("bvult", t, x.mkConst(64, uint64(1)<<62))
	st.pc = append(st.pc, c)
	// successive readings never go back (kept in a reserved heap cell so that it merges like data)
	if last, ok := st.heap[wallCell].(*Term); ok {
		st.pc = append(st.pc, x.mkCmp("bvule", last, t))
	}
	st.heap[wallCell] = t
	return TimeV{t, x.mkBool(false)}
}

func (x *Exec) isRootPkg(p *ssa.Package) bool {
	path := p.Pkg.Path()
	return strings.HasPrefix(path, "github.com/nspcc-dev/dbft")
}

func tagOf(args []Value, def string) string {
	if len(args) > 0 {
		if s, ok := args[0].(StringV); ok {
			return s.s
		}
	}
	return def
}

func (x *Exec) harnessIntrinsic(st *State, name string, args []Value) Value {
	switch name {
	case "vBool":
		return x.newInput(st, tagOf(args, name), 0)
	case "vU8":
		return x.newInput(st, tagOf(args, name), 8)
	case "vU16":
		return x.newInput(st, tagOf(args, name), 16)
	case "vU32":
		return x.newInput(st, tagOf(args, name), 32)
	case "vU64", "vI64":
		return x.newInput(st, tagOf(args, name), 64)
	case "vAssume":
		c := args[0].(*Term)
		if c.isFalse() {
			panic(killPath{"assume false"})
		}
		if !c.isTrue() {
			st.pc = append(st.pc, c)
			st.learn(c)
			if !x.eager(st) {
				if x.check(st.pc, nil) == "unsat" {
					panic(killPath{"assume infeasible"})
				}
			}
		}
		return nil
	case "vAssert", "vCheck":
		id := args[0].(StringV).s
		c := args[1].(*Term)
		a := x.assertStat(id)
		a.Checked++
		x.qlabel = "assert " + id
		if c.isTrue() {
			a.Trivial++
			return nil
		}
		switch x.check(st.pc, x.mkNot(c)) {
		case "sat":
			a.Sat++
			x.recordViolation(st, id, x.mkNot(c), "", true)
		case "unsat":
			a.Unsat++
		default:
			a.Undecided++
		}
		if name == "vCheck" {
			return nil // checked, but not assumed afterwards (keeps arithmetic queries small)
		}
		if c.isFalse() {
			panic(killPath{"assert false"})
		}
		st.pc = append(st.pc, c)
		st.learn(c)
		return nil
	case "vKnown":
		id := args[0].(StringV).s
		c := args[1].(*Term)
		if c.isFalse() {
			return nil
		}
		if x.check(st.pc, c) == "sat" {
			x.res.Known[id]++
			if v := x.recordViolation(st, "KNOWN:"+id, c, "", true); v != nil {
				v.Known = true
			}
		}
		return nil
	case "vCover":
		id := args[0].(StringV).s
		if x.eager(st) {
			// arms of eager predicates are not checked for feasibility: ask, once per witness
			if x.res.Covers[id] > 0 || x.check(st.pc, nil) == "sat" {
				x.res.Covers[id]++
			}
			return nil
		}
		x.res.Covers[id]++
		return nil
	case "vNote", "vSubFail":
		return nil
	case "vCut":
		st.cut = true
		return nil
	case "vParam":
		n := args[0].(StringV).s
		return x.mkConst(64, uint64(x.params[n])) // absent = 0
	case "vWant":
		p := args[0].(StringV).s
		if len(x.want) == 0 {
			return x.mkBool(true)
		}
		for _, q := range strings.Split(p, ",") {
			for _, w := range x.want {
				if strings.HasPrefix(q, w) || strings.HasPrefix(w, q) {
					return x.mkBool(true)
				}
			}
		}
		return x.mkBool(false)
	case "vIsSymbolic":
		return x.mkBool(x.concrete == nil)
	case "vHash", "vUF":
		kind := args[0].(*Term)
		if !kind.isConst() {
			panic(internalErr{name + ": kind must be concrete"})
		}
		var ts []*Term
		for _, e := range sliceElems(st, args[1]) {
			ts = append(ts, e.(*Term))
		}
		var t *Term
		if name == "vHash" {
			t = x.mk("uf", 32, 0, fmt.Sprintf("vH%d_%d", kind.val, len(ts)), 1, 0, ts...)
		} else {
			t = x.mk("uf", 32, 0, fmt.Sprintf("vF%d_%d", kind.val, len(ts)), 0, 0, ts...)
		}
		if x.concrete != nil {
			var cv []uint64
			for _, a := range ts {
				if !a.isConst() {
					panic(internalErr{"concrete mode: symbolic UF argument"})
				}
				cv = append(cv, a.val)
			}
			return x.mkConst(64, x.concrete.uf(t.name, cv))
		}
		x.noteUF(t)
		return x.mkZext(64, t)
	case "vBytesOf":
		t := args[0].(*Term)
		e := make([]Value, 8)
		for k := 0; k < 8; k++ {
			e[k] = x.mkExtract(8*k+7, 8*k, t)
		}
		id := x.alloc(st, ArrayV{e})
		return SliceV{arr: id, off: 0, length: 8, capacity: 8}
	case "vU64Of":
		sl, ok := args[0].(SliceV)
		if !ok || sl.arr < 0 || sl.length != 8 {
			// a signature that is not 8 bytes never verifies: a value no token can equal
			return x.mkConst(64, ^uint64(0))
		}
		arr := st.heap[sl.arr].(ArrayV)
		var base *Term
		okAll := true
		for k := 0; k < 8; k++ {
			c := arr.e[sl.off+k].(*Term)
			if c.op == "extract" && c.p1 == 8*k+7 && c.p2 == 8*k && (base == nil || base == c.args[0]) {
				base = c.args[0]
			} else {
				okAll = false
			}
		}
		if okAll && base != nil {
			return base
		}
		acc := x.mkConst(64, 0)
		for k := 0; k < 8; k++ {
			acc = x.mkBin("bvor", acc, x.mkBin("bvshl", x.mkZext(64, arr.e[sl.off+k].(*Term)), x.mkConst(64, uint64(8*k))))
		}
		return acc
	case "vMaybeHV":
		pv := x.resolvePtr(st, args[1].(PtrV), "vMaybeHV of nil")
		return PtrV{obj: pv.obj, path: pv.path, nonnil: x.newInput(st, tagOf(args, "present"), 0)}
	case "vMaybe", "vMaybeRec", "vMaybeBlock", "vMaybePre":
		iv := args[1].(IfaceV)
		return IfaceV{typ: iv.typ, val: iv.val, nonnil: x.newInput(st, tagOf(args, "present"), 0)}
	case "vTime":
		return TimeV{args[0].(*Term), x.mkBool(false)}
	case "vTimeZ":
		return TimeV{args[1].(*Term), args[0].(*Term)}
	case "vZeroTime":
		return TimeV{x.mkConst(64, zeroTimeNS), x.mkBool(true)}
	case "vNs":
		t := args[0].(TimeV)
		return x.mkIte(t.zero, x.mkConst(64, ^uint64(0)), t.ns)
	case "vSymLen":
		return symLenSlice{n: args[0].(*Term)}
	case "vSelectedOn":
		// did the latest blocking select wait on this very channel?
		// (pointers may be guarded choices between objects after a merge: compare per alternative)
		p := args[0].(PtrV)
		res := x.mkBool(false)
		if a, ok := st.heap[selChansCell].(ArrayV); ok {
			for _, pa := range x.alts(p) {
				for _, c := range a.e {
					if cp, ok := c.(PtrV); ok {
						for _, ca := range x.alts(cp) {
							if ca.obj == pa.obj {
								res = x.mkOr(res, x.mkAnd(pa.g, ca.g))
							}
						}
					}
				}
			}
		}
		return res
	case "vWall":
		return x.wallClock(st).ns
	case "vSleep":
		// at least d nanoseconds pass: the next reading of the clock is >= last + d
		d := args[0].(*Term)
		last, ok := st.heap[wallCell].(*Term)
		if !ok {
			last = x.wallClock(st).ns
		}
		st.heap[wallCell] = x.mkBin("bvadd", last, d)
		return nil
	case "vObserve":
		// the instant at which a receive from the channel completes if the program waits for it
		// from now on, whether it ever completes, and the value received
		p := args[0].(PtrV)
		never := TupleV{x.mkConst(64, 0), x.mkBool(false), x.mkConst(64, 0)}
		if p.obj < 0 {
			return never
		}
		cd := st.heap[p.obj].(ChanData)
		// "now" is the latest clock reading already taken (the harness reads the clock just before)
		now, okw := st.heap[wallCell].(*Term)
		if !okw {
			now = x.wallClock(st).ns
		}
		if cd.timer {
			if cd.stopped {
				return never
			}
			at := x.mkIte(x.mkCmp("bvugt", cd.deadline, now), cd.deadline, now)
			return TupleV{at, x.mkBool(true), cd.deadline}
		}
		if len(cd.q) == 0 {
			return never
		}
		v := cd.q[0].(TimeV)
		return TupleV{now, x.mkBool(true), v.ns}
	}
	panic("harness intrinsic " + name)
}

// ---------------- channels and runtime timers (package timer, simulation)

func (x *Exec) chanSend(st *State, i *ssa.Send) {
	p := x.val(st, i.Chan).(PtrV)
	if p.obj < 0 {
		panic(execPanic{"send on nil channel (blocks forever)"})
	}
	p = x.resolvePtr(st, p, "send on nil channel")
	cd := st.heap[p.obj].(ChanData)
	if len(cd.q) >= cd.capacity {
		panic(execPanic{"send on full channel (blocks forever: single goroutine)"})
	}
	q := append(append([]Value(nil), cd.q...), x.val(st, i.X))
	cd.q = q
	st.heap[p.obj] = cd
}

func (x *Exec) chanRecv(st *State, p PtrV, commaOk bool) Value {
	if p.obj < 0 {
		panic(execPanic{"receive from nil channel (blocks forever)"})
	}
	p = x.resolvePtr(st, p, "receive from nil channel")
	cd := st.heap[p.obj].(ChanData)
	if len(cd.q) == 0 {
		panic(execPanic{"receive from empty channel (blocks forever: single goroutine)"})
	}
	v := cd.q[0]
	cd.q = append([]Value(nil), cd.q[1:]...)
	st.heap[p.obj] = cd
	if commaOk {
		return TupleV{v, x.mkBool(true)}
	}
	return v
}

// selectOp supports the non-blocking single-receive form used by timer.drain.
func (x *Exec) selectOp(st *State, i *ssa.Select) Value {
	if !i.Blocking && len(i.States) == 1 && i.States[0].Dir == types.SendOnly {
		// non-blocking send: goes through iff the buffer has room
		p := x.val(st, i.States[0].Chan).(PtrV)
		if p.obj >= 0 {
			cd := st.heap[p.obj].(ChanData)
			if len(cd.q) < cd.capacity {
				cd.q = append(append([]Value(nil), cd.q...), x.val(st, i.States[0].Send))
				st.heap[p.obj] = cd
				return TupleV{x.mkConst(64, 0), x.mkBool(false)}
			}
		}
		return TupleV{x.mkConst(64, ^uint64(0)), x.mkBool(false)}
	}
	if i.Blocking {
		// Blocking select over receive cases (event loops): the environment decides which case
		// is ready -- a fresh choice, forked; the received value is the zero value (handlers are
		// summarised). After `selbound` selects only case 0 (cancellation) is taken.
		n := len(i.States)
		for _, s := range i.States {
			if s.Dir != types.RecvOnly {
				panic(internalErr{"unsupported select form (blocking send)"})
			}
		}
		cnt := 0
		if c, ok := st.heap[selCell].(*Term); ok {
			cnt = int(c.val)
		}
		// remember which channels this select waits on (vSelectedOn)
		var chans []Value
		for _, s := range i.States {
			chans = append(chans, x.val(st, s.Chan))
		}
		st.heap[selChansCell] = ArrayV{chans}
		k := 0
		if b, ok := x.params["selbound"]; !ok || cnt < b {
			// (a fork re-executes this instruction: the choice variable is created once and kept
			// in a reserved cell until the choice is resolved)
			pick, have := st.heap[selPickCell].(*Term)
			if !have {
				pick = x.newInput(st, "select.case", 8)
				st.pc = append(st.pc, x.mkCmp("bvult", pick, x.mkConst(8, uint64(n))))
				st.heap[selPickCell] = pick
			}
			k = x.concreteIndex(st, pick, n)
			delete(st.heap, selPickCell)
		}
		st.heap[selCell] = x.mkConst(64, uint64(cnt+1))
		res := TupleV{x.mkConst(64, uint64(k)), x.mkBool(true)}
		for _, s := range i.States {
			res = append(res, x.zeroValue(s.Chan.Type().Underlying().(*types.Chan).Elem()))
		}
		return res
	}
	if len(i.States) != 1 || i.States[0].Dir != types.RecvOnly {
		panic(internalErr{"unsupported select form"})
	}
	p := x.val(st, i.States[0].Chan).(PtrV)
	elemT := i.States[0].Chan.Type().Underlying().(*types.Chan).Elem()
	if p.obj >= 0 {
		cd := st.heap[p.obj].(ChanData)
		if len(cd.q) > 0 {
			v := cd.q[0]
			cd.q = append([]Value(nil), cd.q[1:]...)
			st.heap[p.obj] = cd
			return TupleV{x.mkConst(64, 0), x.mkBool(true), v}
		}
	}
	return TupleV{x.mkConst(64, ^uint64(0)), x.mkBool(false), x.zeroValue(elemT)}
}

const wallCell = -100
const selCell = -101
const selPickCell = -102
const selChansCell = -103

func (x *Exec) timerIntrinsic(st *State, full string, args []Value, call *ssa.Call) (Value, bool) {
	switch full {
	case "time.NewTimer":
		now := x.wallClock(st)
		d := args[0].(*Term)
		// a non-positive duration fires at once
		dl := x.mkIte(x.mkCmp("bvsgt", d, x.mkConst(64, 0)), x.mkBin("bvadd", now.ns, d), now.ns)
		ch := x.alloc(st, ChanData{capacity: 1, timer: true, deadline: dl})
		tt := call.Type().(*types.Pointer).Elem()
		sv := x.zeroValue(tt).(StructV)
		f := append([]Value(nil), sv.f...)
		f[0] = PtrV{obj: ch, nonnil: x.mkBool(true)}
		obj := x.alloc(st, StructV{f})
		return PtrV{obj: obj, nonnil: x.mkBool(true)}, true
	case "(*time.Timer).Stop":
		p := x.resolvePtr(st, args[0].(PtrV), "Stop on nil *time.Timer")
		sv := getPath(st.heap[p.obj], p.path).(StructV)
		cp := sv.f[0].(PtrV)
		cd := st.heap[cp.obj].(ChanData)
		cd.stopped = true
		cd.q = nil
		st.heap[cp.obj] = cd
		return x.newInput(st, "timer.stop.result", 0), true
	}
	return nil, false
}
