package main

import "fmt"

const dbftPkg = "github.com/nspcc-dev/dbft"

var commonAssumptions = []string{
	"go/ssa (x/tools v0.29.0) lowers the Go source faithfully; the executor's SSA semantics are checked by native replay of every counterexample",
	"zap logging, fmt and sync are stubs with empty bodies (logging is not the subject of any property)",
	"machine integers are bit-vectors with Go's wrap-around semantics; no mathematical-integer abstraction",
}

func planFor(prop, tier string) *Plan {
	switch prop {
	case "C06":
		return planC06(tier)
	}
	return nil
}

func job(entry string, solver string, kv ...interface{}) *Job {
	j := &Job{Pkg: dbftPkg, Entry: entry, Params: map[string]int{}, Solver: solver}
	for i := 0; i+1 < len(kv); i += 2 {
		j.Params[kv[i].(string)] = kv[i+1].(int)
	}
	return j
}

func planC06(tier string) *Plan {
	p := &Plan{Property: "C06", Tier: tier, Patterns: []string{"."}}
	entries := []string{"quorum", "range", "view0", "boundary", "nextview", "prevview", "nextheight", "shift", "distinctviews", "distinctheights", "samenode"}
	for _, e := range entries {
		j := job("H_C06_"+e, "cvc5-int")
		j.Timeout = 30000
		if tier == "thorough" {
			j.Timeout = 120000
		}
		p.Jobs = append(p.Jobs, j)
		p.MustCover = append(p.MustCover, "C06."+e)
	}
	ns := []int{1, 4, 7}
	if tier == "thorough" {
		ns = nil
		for n := 1; n <= 16; n++ {
			ns = append(ns, n)
		}
		ns = append(ns, 32, 64, 255, 256, 65535)
	}
	for _, n := range ns {
		j := job("H_C06_concrete", "z3", "n", n)
		j.Timeout = 60000
		p.Jobs = append(p.Jobs, j)
	}
	p.MustCover = append(p.MustCover, "C06.concrete")
	p.MustAssert = []string{"C06.O1.Flo", "C06.O1.Fhi", "C06.O1.M", "C06.O2.intersect", "C06.O2.Mpos", "C06.O2.Mhonest", "C06.O3.range", "C06.O4.closedform", "C06.O4.view0",
		"C06.O4.nextview", "C06.O4.prevview", "C06.O4.nextheight", "C06.O4.shift", "C06.O4.distinctviews", "C06.O4.distinctheights", "C06.O4.samenode", "C06.O5.maxheight", "C06.O5.zeroheight"}
	p.Bounds = map[string]string{
		"validator_count": "symbolic n in [1, 65535] (the whole 16-bit index domain); no enumeration",
		"height":          "symbolic, all 2^32 values (successor lemmas exclude the wrap from 2^32-1 to 0)",
		"view":            "symbolic, 0..255",
		"concrete_cross_check": fmt.Sprintf("n in %v on the bit-vector back end", ns),
	}
	p.Assumptions = append([]string{
		"len(Validators) >= 1 (documented: the library panics otherwise)",
		"int is 64 bits (amd64)",
	}, commonAssumptions...)
	p.Outside = []string{"'every validator exactly once over n consecutive views/heights' is decided as pairwise distinctness of any two views (heights) less than n apart; that n distinct indices in [0,n) form a permutation is the pigeonhole principle, not a solver query"}
	p.Explanation = "Symbolic execution of the real Context.N/F/M/GetPrimaryIndex with the validator count, height and view as solver variables; every obligation is one SMT query over the whole domain (cvc5 --solve-bv-as-int=sum for the division/modulo by a variable), cross-checked for concrete counts on z3's bit-vector theory. unsat of the negated obligation = holds for every value."
	return p
}

// ---------------------------------------------------------------- step harness jobs

const (
	apiChangeView = iota
	apiPrepareRequest
	apiPrepareResponse
	apiCommit
	apiPreCommit
	apiRecoveryRequest
	apiRecoveryMessage
	apiTimeout
	apiTransaction
	apiNewTransaction
	apiReset
	apiStart
)

var apiNames = []string{"ChangeView", "PrepareRequest", "PrepareResponse", "Commit", "PreCommit", "RecoveryRequest", "RecoveryMessage", "Timeout", "Transaction", "NewTransaction", "Reset", "Start"}

type stepCfg struct {
	n, my, prim      int
	amev, maxtpb     int
	req, ntx, txmask int
	api              int
	extra            map[string]int
}

func stepJob(c stepCfg, want []string) *Job {
	j := &Job{Pkg: dbftPkg, Entry: "H_step", Solver: "z3-new", Want: want, Params: map[string]int{
		"n": c.n, "my": c.my, "prim": c.prim, "amev": c.amev, "maxtpb": c.maxtpb, "req": c.req, "ntx": c.ntx, "txmask": c.txmask,
		"api": c.api, "ncache": 0, "npool": 0, "rtt": 0, "mntx": 0, "rreq": 0, "rresp": 0, "rcv": 0, "rpc": 0, "rc": 0}}
	for k, v := range c.extra {
		j.Params[k] = v
	}
	return j
}

// stepSweep enumerates step-harness cells. roles: own indices to use (with primary 0).
func stepSweep(n int, roles []int, amevs, maxs, reqs []int, txcfgs [][2]int, apis []int, want []string, budget int) []*Job {
	var jobs []*Job
	for _, my := range roles {
		for _, amev := range amevs {
			for _, mx := range maxs {
				for _, req := range reqs {
					for _, tc := range txcfgs {
						if req == 0 && (tc[0] != 0) {
							continue
						}
						for _, api := range apis {
							if api == apiPreCommit && amev == 0 {
								// handled by the same gate as amev=1 below the enabling height
							}
							c := stepCfg{n: n, my: my, prim: 0, amev: amev, maxtpb: mx, req: req, ntx: tc[0], txmask: tc[1], api: api}
							if api == apiPrepareRequest {
								c.extra = map[string]int{"mntx": 1}
							}
							if api == apiRecoveryMessage {
								c.extra = map[string]int{"rreq": 1, "rresp": 1, "rcv": 1, "rpc": amev, "rc": 1, "mntx": 0}
							}
							j := stepJob(c, want)
							j.BudgetS = budget
							jobs = append(jobs, j)
						}
					}
				}
			}
		}
	}
	return jobs
}

// ---------------------------------------------------------------- step-based property plans

var stepAssumptions = []string{
	"pre-state: any state satisfying the representation invariant Inv (DESIGN §5; harness/dbft/zz_verif_inv.go), established by construction or vAssume; states behind known finding KF-1 are outside Inv",
	"payload authentication is the application's (a payload attributed to validator i was produced by i); an incoming payload never carries the receiver's own index",
	"hashes are injective uninterpreted functions of the content (the Hash interface's documented contract); signatures are Dolev-Yao tokens (valid iff produced by that key for that block)",
	"application callbacks (VerifyBlock, Verify*, ProcessBlock, GetTx, Sign, SetData ...) return arbitrary results that are deterministic functions of their arguments within one call",
	"0 < TimePerBlock <= 2^40 ns, MaxTimePerBlock >= TimePerBlock when set, ViewNumber <= 20 in the pre-state, clock readings in [0, 2^62)",
	"proposals list pairwise distinct transaction hashes",
	"single goroutine; callbacks do not re-enter the library",
}

type cellSpec struct {
	roles, amevs, maxs, reqs []int
	tx                       [][2]int
	apis                     []int
	extra                    map[string]int
}

func (c cellSpec) jobs(n int, want []string, budget int) []*Job {
	maxs := c.maxs
	if maxs == nil {
		maxs = []int{0}
	}
	tx := c.tx
	if tx == nil {
		tx = [][2]int{{0, 0}}
	}
	js := stepSweep(n, c.roles, c.amevs, maxs, c.reqs, tx, c.apis, want, budget)
	for _, j := range js {
		for k, v := range c.extra {
			j.Params[k] = v
		}
	}
	return js
}

var allMsgApis = []int{apiChangeView, apiPrepareRequest, apiPrepareResponse, apiCommit, apiPreCommit, apiRecoveryRequest, apiRecoveryMessage}
var allApis = []int{apiChangeView, apiPrepareRequest, apiPrepareResponse, apiCommit, apiPreCommit, apiRecoveryRequest, apiRecoveryMessage, apiTimeout, apiTransaction, apiNewTransaction}

func stepPlan(prop, tier string, want []string, cells []cellSpec, budget int) *Plan {
	p := &Plan{Property: prop, Tier: tier, Patterns: []string{"."}}
	seen := map[string]bool{}
	for _, c := range cells {
		for _, j := range c.jobs(4, want, budget) {
			k := j.String()
			if !seen[k] {
				seen[k] = true
				p.Jobs = append(p.Jobs, j)
			}
		}
	}
	p.Assumptions = append(append([]string{}, stepAssumptions...), commonAssumptions...)
	p.Bounds = map[string]string{
		"validators":    "N = 4 (own index and primary index concrete per job; sender index symbolic)",
		"height_view":   "height symbolic (32 bit), view symbolic <= 20",
		"transactions":  "proposals with 0..1 transactions (per job), each held or missing",
		"steps":         "ONE API call from an arbitrary Inv state (inductive step): covers histories of any length as far as Inv is inductive",
		"recovery":      "received recovery messages carry <= 1 payload per category",
		"cache":         "empty cache in the pre-state for the step harness; cached-payload replay is examined by the Reset harness",
		"solver_limits": "5 s primary (z3 5.1), 20 s fallbacks (cvc5, z3 4.8, cvc5 int-blasting); an undecided query makes the run inconclusive",
	}
	p.Outside = []string{"N other than 4 (thorough adds 1, 2, 3, 5, 7)", "views above 20", "proposals with more than one transaction (thorough: two)", "map iteration orders other than insertion order for cached payloads"}
	return p
}
