package main

import (
	"fmt"
	"sort"
)

const dbftPkg = "github.com/nspcc-dev/dbft"

var commonAssumptions = []string{
	"go/ssa (x/tools v0.29.0) lowers the Go source faithfully; the executor's SSA semantics are checked by native replay of every counterexample",
	"zap logging, fmt and sync are stubs with empty bodies (logging is not the subject of any property)",
	"machine integers are bit-vectors with Go's wrap-around semantics; no mathematical-integer abstraction",
}

func planFor(prop, tier string) *Plan {
	quickTier = tier != "thorough"
	switch prop {
	case "C06":
		return planC06(tier)
	}
	if f, ok := planRegistry[prop]; ok {
		return f(tier)
	}
	return nil
}

func job(entry string, solver string, kv ...interface{}) *Job {
	j := &Job{Pkg: dbftPkg, Entry: entry, Params: map[string]int{}, Solver: solver}
	for i := 0; i+1 < len(kv); i += 2 {
		j.Params[kv[i].(string)] = kv[i+1].(int)
	}
	return j
}

func planC06(tier string) *Plan {
	p := &Plan{Property: "C06", Tier: tier, Patterns: []string{"."}}
	entries := []string{"quorum", "range", "view0", "boundary", "nextview", "prevview", "nextheight", "shift", "distinctviews", "distinctheights", "samenode"}
	for _, e := range entries {
		j := job("H_C06_"+e, "cvc5-int")
		j.Timeout = 30000
		if tier == "thorough" {
			j.Timeout = 120000
		}
		p.Jobs = append(p.Jobs, j)
		p.MustCover = append(p.MustCover, "C06."+e)
	}
	ns := []int{1, 4, 7}
	if tier == "thorough" {
		ns = nil
		for n := 1; n <= 16; n++ {
			ns = append(ns, n)
		}
		ns = append(ns, 32, 64, 255, 256, 65535)
	}
	for _, n := range ns {
		j := job("H_C06_concrete", "z3", "n", n)
		j.Timeout = 60000
		p.Jobs = append(p.Jobs, j)
	}
	p.MustCover = append(p.MustCover, "C06.concrete")
	p.MustAssert = []string{"C06.O1.Flo", "C06.O1.Fhi", "C06.O1.M", "C06.O2.intersect", "C06.O2.Mpos", "C06.O2.Mhonest", "C06.O3.range", "C06.O4.closedform", "C06.O4.view0",
		"C06.O4.nextview", "C06.O4.prevview", "C06.O4.nextheight", "C06.O4.shift", "C06.O4.distinctviews", "C06.O4.distinctheights", "C06.O4.samenode", "C06.O5.maxheight", "C06.O5.zeroheight"}
	p.Bounds = map[string]string{
		"validator_count": "symbolic n in [1, 65535] (the whole 16-bit index domain); no enumeration",
		"height":          "symbolic, all 2^32 values (successor lemmas exclude the wrap from 2^32-1 to 0)",
		"view":            "symbolic, 0..255",
		"concrete_cross_check": fmt.Sprintf("n in %v on the bit-vector back end", ns),
	}
	p.Assumptions = append([]string{
		"len(Validators) >= 1 (documented: the library panics otherwise)",
		"int is 64 bits (amd64)",
	}, commonAssumptions...)
	p.Outside = []string{"'every validator exactly once over n consecutive views/heights' is decided as pairwise distinctness of any two views (heights) less than n apart; that n distinct indices in [0,n) form a permutation is the pigeonhole principle, not a solver query"}
	p.Explanation = "Symbolic execution of the real Context.N/F/M/GetPrimaryIndex with the validator count, height and view as solver variables; every obligation is one SMT query over the whole domain (cvc5 --solve-bv-as-int=sum for the division/modulo by a variable), cross-checked for concrete counts on z3's bit-vector theory. unsat of the negated obligation = holds for every value."
	return p
}

// ---------------------------------------------------------------- step harness jobs

const (
	apiChangeView = iota
	apiPrepareRequest
	apiPrepareResponse
	apiCommit
	apiPreCommit
	apiRecoveryRequest
	apiRecoveryMessage
	apiTimeout
	apiTransaction
	apiNewTransaction
	apiReset
	apiStart
)

var apiNames = []string{"ChangeView", "PrepareRequest", "PrepareResponse", "Commit", "PreCommit", "RecoveryRequest", "RecoveryMessage", "Timeout", "Transaction", "NewTransaction", "Reset", "Start"}

type stepCfg struct {
	n, my, prim      int
	amev, maxtpb     int
	req, ntx, txmask int
	api              int
	extra            map[string]int
}

func stepJob(c stepCfg, want []string) *Job {
	j := &Job{Pkg: dbftPkg, Entry: "H_step", Solver: "z3-new", Want: want, Params: map[string]int{
		"n": c.n, "my": c.my, "prim": c.prim, "amev": c.amev, "maxtpb": c.maxtpb, "req": c.req, "ntx": c.ntx, "txmask": c.txmask,
		"api": c.api, "ncache": 0, "npool": 0, "rtt": 0, "mntx": 0, "rreq": 0, "rresp": 0, "rcv": 0, "rpc": 0, "rc": 0}}
	for k, v := range c.extra {
		j.Params[k] = v
	}
	return j
}

// stepSweep enumerates step-harness cells. roles: own indices to use (with primary 0).
func stepSweep(n int, roles []int, amevs, maxs, reqs []int, txcfgs [][2]int, apis []int, want []string, budget int) []*Job {
	var jobs []*Job
	for _, my := range roles {
		for _, amev := range amevs {
			for _, mx := range maxs {
				for _, req := range reqs {
					for _, tc := range txcfgs {
						if req == 0 && (tc[0] != 0) {
							continue
						}
						for _, api := range apis {
							if api == apiPreCommit && amev == 0 {
								// handled by the same gate as amev=1 below the enabling height
							}
							c := stepCfg{n: n, my: my, prim: 0, amev: amev, maxtpb: mx, req: req, ntx: tc[0], txmask: tc[1], api: api}
							if api == apiPrepareRequest {
								c.extra = map[string]int{"mntx": 1}
							}
							j := stepJob(c, want)
							j.BudgetS = budget
							jobs = append(jobs, j)
						}
					}
				}
			}
		}
	}
	return jobs
}

// ---------------------------------------------------------------- step-based property plans

var stepAssumptions = []string{
	"pre-state: any state satisfying the representation invariant Inv (DESIGN §5; harness/dbft/zz_verif_inv.go), established by construction or vAssume; states behind known finding KF-1 are outside Inv",
	"payload authentication is the application's (a payload attributed to validator i was produced by i); an incoming payload never carries the receiver's own index",
	"hashes are injective uninterpreted functions of the content (the Hash interface's documented contract); signatures are Dolev-Yao tokens (valid iff produced by that key for that block)",
	"application callbacks (VerifyBlock, Verify*, ProcessBlock, GetTx, Sign, SetData ...) return arbitrary results that are deterministic functions of their arguments within one call",
	"0 < TimePerBlock <= 2^40 ns, MaxTimePerBlock >= TimePerBlock when set, ViewNumber <= 20 in the pre-state, clock readings in [0, 2^62)",
	"proposals list pairwise distinct transaction hashes",
	"single goroutine; callbacks do not re-enter the library",
}

type cellSpec struct {
	roles, amevs, maxs, reqs []int
	tx                       [][2]int
	apis                     []int
	extra                    map[string]int
}

func (c cellSpec) jobs(n int, want []string, budget int) []*Job {
	maxs := c.maxs
	if maxs == nil {
		maxs = []int{0}
	}
	tx := c.tx
	if tx == nil {
		tx = [][2]int{{0, 0}}
	}
	js := stepSweep(n, c.roles, c.amevs, maxs, c.reqs, tx, c.apis, want, budget)
	for _, j := range js {
		for k, v := range c.extra {
			j.Params[k] = v
		}
	}
	return js
}

var allMsgApis = []int{apiChangeView, apiPrepareRequest, apiPrepareResponse, apiCommit, apiPreCommit, apiRecoveryRequest, apiRecoveryMessage}
var allApis = []int{apiChangeView, apiPrepareRequest, apiPrepareResponse, apiCommit, apiPreCommit, apiRecoveryRequest, apiRecoveryMessage, apiTimeout, apiTransaction, apiNewTransaction}

// splitHeavy replaces the cells known to dominate the wall clock (anti-MEV recovery messages
// carrying responses/pre-commits, anti-MEV PreCommit/PrepareResponse with the proposal known) by
// one job per sender index: the case split on the symbolic sender happens across workers
// instead of inside one. The union of the split jobs covers exactly the original job.
func splitHeavy(j *Job) []*Job {
	pm := j.Params
	if pm["cls"] != 0 || pm["split"] != 0 || pm["rsplit"] != 0 {
		return []*Job{j}
	}
	key := ""
	switch {
	case pm["api"] == apiRecoveryMessage && (pm["rresp"] > 0 || pm["rpc"] > 0 || pm["rc"] > 0 || pm["rcv"] > 0):
		key = "rsplit"
	case pm["api"] == apiPreCommit && pm["req"] == 1 && pm["amev"] == 1:
		key = "split"
	default:
		return []*Job{j}
	}
	var out []*Job
	n := pm["n"]
	for k := 0; k <= n; k++ {
		if k == pm["my"] && pm["watch"] != 1 {
			continue // own payloads are not fed back to an active node
		}
		c := *j
		c.Params = map[string]int{}
		for a, b := range pm {
			c.Params[a] = b
		}
		c.Params[key] = k + 1
		out = append(out, &c)
	}
	return out
}

// jobWeight orders jobs longest-first (measured): the slowest cells start first so that the
// wall clock is the longest job, not the longest job queued last.
func jobWeight(j *Job) int {
	pm := j.Params
	w := pm["amev"]*4 + pm["req"]*2 + pm["ncache"]*3 + pm["ntx"]
	switch pm["api"] {
	case apiRecoveryMessage:
		w += 6
	case apiPreCommit, apiPrepareResponse:
		w += 4
	case apiCommit, apiPrepareRequest, apiTransaction:
		w += 3
	case apiChangeView, apiTimeout:
		w += 1
	}
	if pm["cls"] != 0 {
		w = 0
	}
	return w
}

func stepPlan(prop, tier string, want []string, cells []cellSpec, budget int) *Plan {
	p := &Plan{Property: prop, Tier: tier, Patterns: []string{"."}}
	seen := map[string]bool{}
	for _, c := range cells {
		for _, j0 := range c.jobs(4, want, budget) {
			for _, j := range splitHeavy(j0) {
				k := j.String()
				if !seen[k] {
					seen[k] = true
					p.Jobs = append(p.Jobs, j)
				}
			}
		}
	}
	sort.SliceStable(p.Jobs, func(a, b int) bool { return jobWeight(p.Jobs[a]) > jobWeight(p.Jobs[b]) })
	p.Assumptions = append(append([]string{}, stepAssumptions...), commonAssumptions...)
	p.Bounds = map[string]string{
		"validators":    "N = 4 (own index and primary index concrete per job; sender index symbolic)",
		"height_view":   "height symbolic (32 bit), view symbolic <= 20",
		"transactions":  "proposals with 0..1 transactions (per job), each held or missing",
		"steps":         "ONE API call from an arbitrary Inv state (inductive step): covers histories of any length as far as Inv is inductive",
		"recovery":      "received recovery messages carry <= 1 payload per category",
		"cache":         "empty cache in the pre-state for the step harness; cached-payload replay is examined by the Reset harness",
		"solver_limits": "5 s primary (z3 5.1), 20 s fallbacks (cvc5, z3 4.8, cvc5 int-blasting); an undecided query makes the run inconclusive",
	}
	p.Outside = []string{"N other than 4 for the one-step jobs (a single N=5 job takes 20 s instead of 3 s, N=7 did not finish in 50 min)", "views above 20", "proposals with more than two transactions", "recovery messages with more than one payload per category"}
	return p
}

func init() {
	planRegistry["C02"] = planC02
	planRegistry["C03"] = planC03
	planRegistry["C04"] = planC04
	planRegistry["C07"] = planC07
	planRegistry["C10"] = planC10
	planRegistry["C13"] = planC13
	planRegistry["C17"] = planC17
	planRegistry["C08"] = planC08
	planRegistry["C18"] = planC18
	planRegistry["C14"] = planC14
	planRegistry["C09"] = planC09
	planRegistry["C16"] = planC16
	planRegistry["C01"] = planC01
	planRegistry["C15"] = planC15
	planRegistry["C05"] = planC05
	planRegistry["C11"] = planC11
	planRegistry["C12"] = planC12
}

var planRegistry = map[string]func(tier string) *Plan{}

// quickTier: the quick plans leave out the recovery messages that carry prepare responses (four
// split jobs of 150-250 s each); they stay in the thorough plans.
var quickTier bool

func recCells(roles, amevs, reqs []int) []cellSpec {
	var cs []cellSpec
	cats := []map[string]int{{"rreq": 1}, {"rresp": 1}, {"rcv": 1}, {"rc": 1}, {"rpc": 1}}
	if quickTier {
		cats = []map[string]int{{"rreq": 1}, {"rcv": 1}, {"rc": 1}, {"rpc": 1}}
	}
	for _, ex := range cats {
		am := amevs
		if ex["rpc"] == 1 {
			am = []int{1}
		}
		if ex["rreq"] == 1 && quickTier {
			// the anti-MEV recovery message with an embedded proposal is one 7-minute job: thorough only
			// (the anti-MEV proposal path itself is covered by the direct PrepareRequest cells)
			am = nil
			for _, a := range amevs {
				if a == 0 {
					am = append(am, a)
				}
			}
			if len(am) == 0 {
				continue
			}
		}
		cs = append(cs, cellSpec{roles: roles, amevs: am, reqs: reqs, apis: []int{apiRecoveryMessage}, extra: ex})
	}
	return cs
}

func planC02(tier string) *Plan {
	want := []string{"C02"}
	roles := []int{0, 1}
	cells := []cellSpec{
		{roles: roles, amevs: []int{0, 1}, reqs: []int{0, 1}, apis: []int{apiPrepareRequest, apiPrepareResponse, apiCommit, apiPreCommit, apiTimeout, apiChangeView}},
		{roles: []int{-1}, amevs: []int{0, 1}, reqs: []int{0, 1}, apis: []int{apiPrepareRequest, apiCommit, apiPreCommit}},
		{roles: []int{1}, amevs: []int{0, 1}, reqs: []int{1}, tx: [][2]int{{1, 0}}, apis: []int{apiTransaction, apiCommit, apiPreCommit}},
	}
	cells = append(cells, recCells([]int{1}, []int{0, 1}, []int{0})...)
	if tier == "thorough" {
		cells = append(cells, cellSpec{roles: []int{2, -1}, amevs: []int{0, 1}, reqs: []int{0, 1}, apis: allApis})
		cells = append(cells, recCells([]int{0, 2}, []int{0, 1}, []int{0, 1})...)
	}
	p := stepPlan("C02", tier, want, cells, 900)
	p.MustCover = []string{"event.processblock", "event.processpreblock", "step.end"}
	p.MustAssert = []string{"C02.O1.certificate", "C02.O2.certificate", "C02.O3.index", "C02.O3.txorder", "INV"}
	p.Explanation = "One-step symbolic execution of the real OnReceive/OnTimeout/OnTransaction from an arbitrary Inv state (N=4). At every ProcessBlock/ProcessPreBlock callback the harness asserts the decision certificate (>= M current-view commits/pre-commits that verify against exactly that block, block = tip+1 on the reported tip, content = the stored proposal in order); after the call it asserts the Inv conjuncts C02 relies on (verified-on-arrival, slot discipline, lazily built header). unsat = holds for every state and input; sat is replayed natively."
	return p
}

func planC03(tier string) *Plan {
	want := []string{"C03"}
	cells := []cellSpec{
		{roles: []int{0, 1}, amevs: []int{0, 1}, reqs: []int{0, 1}, apis: []int{apiChangeView, apiPrepareRequest, apiPrepareResponse, apiCommit, apiPreCommit, apiRecoveryRequest, apiTimeout, apiNewTransaction}},
		{roles: []int{1}, amevs: []int{0, 1}, reqs: []int{1}, tx: [][2]int{{1, 0}}, apis: []int{apiTransaction}},
	}
	cells = append(cells, recCells([]int{1}, []int{0, 1}, []int{1})...)
	if tier == "thorough" {
		cells = append(cells, cellSpec{roles: []int{2}, amevs: []int{0, 1}, reqs: []int{0, 1}, apis: allApis})
		cells = append(cells, recCells([]int{0, 1}, []int{0, 1}, []int{0, 1})...)
	}
	p := stepPlan("C03", tier, want, cells, 900)
	p.MustCover = []string{"C03.O3.committed", "event.broadcast.commit", "event.broadcast.preparerequest", "event.broadcast.prepareresponse", "event.broadcast.changeview", "event.broadcast.recoverymessage", "step.end"}
	p.MustAssert = []string{"C03.O3.view", "C03.O5.monotone", "C03.O5.view", "C03.O2.slot", "C03.O1.slot", "C03.O3.nocv.commit", "C03.O4.recovery.commit", "INV"}
	p.Explanation = "One-step symbolic execution from an arbitrary Inv state; obligations at every Broadcast callback (own slot holds exactly the payload sent, retransmitted commit/pre-commit is the stored object, no ChangeView while an own commit/pre-commit is stored, recovery messages carry the own commit unchanged, height/view/index of every sent payload are the node's) and after the call (commit lock: view, height and own slots unchanged when committed before; view monotone), plus the Inv conjuncts the argument uses (own-slot facts, change-view bookkeeping)."
	return p
}

func planC04(tier string) *Plan {
	want := []string{"C04"}
	cells := []cellSpec{
		{roles: []int{0, 1}, amevs: []int{0, 1}, reqs: []int{0, 1}, apis: []int{apiChangeView, apiPrepareRequest, apiPrepareResponse, apiTimeout, apiPreCommit}},
		{roles: []int{1}, amevs: []int{0, 1}, reqs: []int{1}, tx: [][2]int{{1, 0}}, apis: []int{apiTransaction, apiPrepareResponse}},
	}
	cells = append(cells, recCells([]int{1}, []int{0, 1}, []int{0})...)
	if tier == "thorough" {
		cells = append(cells, cellSpec{roles: []int{2}, amevs: []int{0, 1}, reqs: []int{0, 1}, apis: allApis})
		cells = append(cells, recCells([]int{0, 1}, []int{0, 1}, []int{0, 1})...)
	}
	p := stepPlan("C04", tier, want, cells, 900)
	p.MustCover = []string{"C04.O3.viewchanged", "event.broadcast.prepareresponse", "event.broadcast.commit", "event.broadcast.precommit", "step.end"}
	p.MustAssert = []string{"C04.O1.proposal", "C04.O1.fromprimary", "C04.O1.alltx", "C04.O1.names", "C04.O1.verified", "C04.O2.quorum", "C04.O3.evidence", "INV"}
	p.Explanation = "One-step symbolic execution from an arbitrary Inv state; at every PrepareResponse broadcast: proposal stored, from the designated primary, all transactions held, the verification callback accepted that very block in this call, the response names the proposal's hash; at the first Commit (PreCommit under anti-MEV) broadcast: >= M current-view preparations naming the proposal; after the call: a higher view only with >= M stored change-view requests for it or above."
	return p
}

func planC07(tier string) *Plan {
	want := []string{"C07"}
	cells := []cellSpec{
		{roles: []int{0, 1, -1}, amevs: []int{1}, reqs: []int{0, 1}, apis: []int{apiPrepareRequest, apiPrepareResponse, apiCommit, apiPreCommit, apiTimeout, apiChangeView}},
		{roles: []int{1}, amevs: []int{1}, reqs: []int{1}, tx: [][2]int{{1, 0}}, apis: []int{apiTransaction, apiPreCommit}},
	}
	cells = append(cells, recCells([]int{1}, []int{1}, []int{0})...)
	if tier == "thorough" {
		cells = append(cells, cellSpec{roles: []int{0, 1, 2, -1}, amevs: []int{1}, reqs: []int{0, 1}, apis: allApis})
	}
	p := stepPlan("C07", tier, want, cells, 900)
	p.MustCover = []string{"event.processpreblock", "event.broadcast.precommit", "event.broadcast.commit", "step.end"}
	p.MustAssert = []string{"C07.O1.ownprecommit", "C07.O1.quorum", "C07.O1.preblock", "C07.O2.once", "C07.O3.newblock", "C07.O3.sign", "C07.O4.noprecommit", "C07.O4.nopreblock", "INV"}
	p.Explanation = "One-step symbolic execution with the anti-MEV enabling height a solver variable (below, at, above the node's height); obligations at the Commit broadcast (own pre-commit stored, >= M current-view pre-commits, pre-block processed), at ProcessPreBlock (at most once per height, only at enabled heights), at NewBlockFromContext/Sign (only after the pre-block), at PreCommit broadcast/SetData (only at enabled heights), and the Inv conjuncts about the pre-commit table and the flags."
	return p
}

func planC10(tier string) *Plan {
	want := []string{"C10"}
	cells := []cellSpec{
		{roles: []int{0, 1}, amevs: []int{0, 1}, maxs: []int{0}, reqs: []int{0, 1}, apis: []int{apiChangeView, apiPrepareRequest, apiPrepareResponse, apiCommit, apiPreCommit, apiTimeout}, extra: map[string]int{"decided": 2}},
		{roles: []int{0, 1}, amevs: []int{0}, maxs: []int{1}, reqs: []int{0, 1}, apis: []int{apiTimeout, apiNewTransaction, apiChangeView, apiPrepareRequest}, extra: map[string]int{"decided": 2}},
		{roles: []int{1}, amevs: []int{0}, reqs: []int{1}, tx: [][2]int{{1, 0}}, apis: []int{apiTransaction}, extra: map[string]int{"decided": 2}},
	}
	// the pool may change between two readings inside one call (the "tiny race" the code itself mentions)
	cells = append(cells, cellSpec{roles: []int{0, 1}, amevs: []int{0}, maxs: []int{1}, reqs: []int{0, 1}, apis: []int{apiTimeout, apiNewTransaction}, extra: map[string]int{"decided": 2, "poollater": 1}})
	cells = append(cells, recCells([]int{1}, []int{0}, []int{0})...)
	if tier == "thorough" {
		cells = append(cells, cellSpec{roles: []int{0, 1, 2}, amevs: []int{0, 1}, maxs: []int{0, 1}, reqs: []int{0, 1}, apis: allApis})
	}
	p := stepPlan("C10", tier, want, cells, 900)
	for _, j := range resetJobs(tier) {
		if j.Params["start"] == 1 || j.Params["ctype0"] == apiChangeView || j.Params["ctype0"] == apiPrepareRequest {
			c := *j
			c.Want = want
			p.Jobs = append(p.Jobs, &c)
		}
	}
	p.MustCover = []string{"step.end", "C10.O3.delivered", "C05.reset.end", "C05.reset.viewchanged"}
	p.MustAssert = []string{"C10.O1.armed", "C10.O1.epoch", "C10.O2.nonneg", "C10.O3.rearmed", "INV"}
	p.Explanation = "One-step symbolic execution with a model timer: after every API call an undecided validator's timer is armed for exactly (BlockIndex, ViewNumber) (Inv conjunct 14, asserted on the post-state, including nested view changes), every Timer.Reset is for the epoch current at that instant and has a non-negative duration (views <= 21, TimePerBlock <= 2^40 ns); OnTimeout for the current epoch re-arms the timer (the timer model is marked consumed before the call in the dedicated cells)."
	return p
}

func planC13(tier string) *Plan {
	want := []string{"C13"}
	cells := []cellSpec{
		{roles: []int{-1}, amevs: []int{0, 1}, maxs: []int{0, 1}, reqs: []int{0, 1}, apis: []int{apiChangeView, apiPrepareRequest, apiPrepareResponse, apiCommit, apiPreCommit, apiRecoveryRequest, apiTimeout, apiNewTransaction}},
		{roles: []int{0, 1}, amevs: []int{0, 1}, maxs: []int{0}, reqs: []int{0, 1}, apis: []int{apiChangeView, apiPrepareRequest, apiPrepareResponse, apiCommit, apiPreCommit, apiRecoveryRequest, apiTimeout, apiNewTransaction}, extra: map[string]int{"watch": 1}},
		{roles: []int{1}, amevs: []int{0, 1}, reqs: []int{1}, tx: [][2]int{{1, 0}}, apis: []int{apiTransaction}, extra: map[string]int{"watch": 1}},
	}
	cells = append(cells, recCells([]int{-1}, []int{0, 1}, []int{0})...)
	p := stepPlan("C13", tier, want, cells, 900)
	p.MustCover = []string{"step.end"}
	p.MustAssert = []string{"INV"}
	p.Explanation = "One-step symbolic execution with the node watch-only through either cause (own index -1, or the WatchOnly flag set with a valid index, primary and backup positions): any Broadcast, Block.Sign or PreBlock.SetData callback is a violation (asserted inside the callbacks), and Inv keeps the own slots empty."
	return p
}

func planC11(tier string) *Plan {
	want := []string{"C11"}
	roles := []int{1, 0, -1}
	if tier == "thorough" {
		roles = []int{0, 1, 2, 3, -1}
	}
	am := []int{0, 1}
	var cells []cellSpec
	// O1..O8: one cell family per class of inadmissible input
	cells = append(cells,
		cellSpec{roles: roles, amevs: am, reqs: []int{0, 1}, apis: allMsgApis[:6], extra: map[string]int{"cls": 1}},
		cellSpec{roles: roles, amevs: am, reqs: []int{0, 1}, apis: allMsgApis[:6], extra: map[string]int{"cls": 2}},
		cellSpec{roles: roles, amevs: am, reqs: []int{0, 1}, apis: []int{apiPrepareRequest}, extra: map[string]int{"cls": 3}},
		cellSpec{roles: roles, amevs: am, reqs: []int{0, 1}, apis: []int{apiPrepareRequest, apiPrepareResponse}, extra: map[string]int{"cls": 4}},
		cellSpec{roles: roles, amevs: am, reqs: []int{0, 1}, apis: []int{apiPrepareResponse}, extra: map[string]int{"cls": 5}},
		cellSpec{roles: roles, amevs: am, reqs: []int{0, 1}, apis: []int{apiPreCommit}, extra: map[string]int{"cls": 6}},
		cellSpec{roles: roles, amevs: am, maxs: []int{0, 1}, reqs: []int{0, 1}, apis: []int{apiTimeout}, extra: map[string]int{"cls": 8}},
		cellSpec{roles: []int{1}, amevs: am, reqs: []int{1}, tx: [][2]int{{1, 0}, {1, 1}, {2, 1}}, apis: []int{apiTransaction}, extra: map[string]int{"cls": 7}},
		cellSpec{roles: roles, amevs: am, reqs: []int{0}, apis: []int{apiTransaction}, extra: map[string]int{"cls": 7}},
	)
	// O9 re-delivery of a stored payload, one cell per (type, slot)
	for _, slot := range []int{0, 2, 3} {
		for _, api := range []int{apiChangeView, apiPrepareRequest, apiPrepareResponse, apiCommit, apiPreCommit} {
			if (api == apiPrepareRequest) != (slot == 0) {
				continue
			}
			a := am
			if api == apiPreCommit {
				a = []int{1}
			}
			cells = append(cells, cellSpec{roles: []int{1, -1}, amevs: a, reqs: []int{0, 1}, apis: []int{api}, extra: map[string]int{"cls": 9, "slot": slot}})
		}
	}
	// O10 panic freedom: every API from every Inv state, callbacks arbitrary
	proles := []int{0, 1, -1}
	cells = append(cells,
		cellSpec{roles: proles, amevs: am, maxs: []int{0, 1}, reqs: []int{0, 1}, apis: []int{apiTimeout, apiNewTransaction}},
		cellSpec{roles: proles, amevs: am, reqs: []int{0, 1}, apis: allMsgApis[:6]},
		cellSpec{roles: []int{1}, amevs: am, reqs: []int{1}, tx: [][2]int{{1, 0}, {2, 1}, {2, 0}}, apis: []int{apiTransaction}},
		cellSpec{roles: []int{1}, amevs: am, reqs: []int{1}, tx: [][2]int{{1, 0}}, apis: []int{apiTransaction}, extra: map[string]int{"ncache": 1, "ctype0": apiPrepareRequest, "csame": 1, "mntx": 1}},
	)
	// bookkeeping of requested transactions across view changes (what "requested" means later)
	cells = append(cells, cellSpec{roles: []int{1}, amevs: am, reqs: []int{1}, tx: [][2]int{{1, 0}, {2, 1}}, apis: []int{apiChangeView, apiTimeout, apiPrepareResponse}})
	cells = append(cells, recCells([]int{1}, am, []int{0})...)
	if tier == "thorough" {
		cells = append(cells, recCells([]int{-1}, am, []int{0})...)
		cells = append(cells, cellSpec{roles: []int{2, 3}, amevs: am, maxs: []int{0, 1}, reqs: []int{0, 1}, apis: allApis})
		cells = append(cells, recCells([]int{0, 2}, am, []int{0, 1})...)
	}
	p := stepPlan("C11", tier, want, cells, 900)
	p.PanicsCount = true
	p.MustCover = []string{"C11.class", "step.end"}
	p.MustAssert = []string{"C11.unchanged", "C11.unchanged.rest", "C11.silent", "C11.O9.effects", "INV"}
	p.Explanation = "One-step symbolic execution from an arbitrary Inv state with the input constrained to one class of inadmissible input per job (index outside the list, past height, current-view proposal from a non-primary, proposal/response of a lower view, response from the primary, pre-commit with anti-MEV off, unrequested transaction, timeout of another epoch) or to a payload already stored in its slot (re-delivery): the whole-state fingerprint (all Context tables by identity, proposal fields, transaction lists, flags, time references, rtt, cache size, timer model; LastSeenMessage of the sender excepted) must be equal before and after and no callback may fire (re-delivery: nothing but a recovery message). Every implicit Go panic (nil dereference, index/slice bounds, failed type assertion, nil map write, division by zero, nil func call) on any feasible path of any job is a violation."
	p.Bounds["input_classes"] = "one job family per class of the statement; re-delivery per (payload type, slot)"
	return p
}

func planC12(tier string) *Plan {
	want := []string{"C12"}
	am := []int{0, 1}
	roles := []int{1}
	if tier == "thorough" {
		roles = []int{1, 2, 3}
	}
	cells := []cellSpec{
		{roles: roles, amevs: am, reqs: []int{1}, tx: [][2]int{{1, 0}, {2, 1}, {2, 2}}, apis: []int{apiTransaction}, extra: map[string]int{"lasttx": 1}},
		{roles: roles, amevs: am, reqs: []int{1}, tx: [][2]int{{2, 0}}, apis: []int{apiTransaction}},
		// the list of awaited hashes may name a hash twice (sendRecoveryRequest re-requests)
		{roles: roles, amevs: am, reqs: []int{1}, tx: [][2]int{{1, 0}, {2, 1}}, apis: []int{apiTransaction}, extra: map[string]int{"lasttx": 1, "mdup": 1}},
		// the view change and the next proposal inside the same call: a cached next-view proposal
		{roles: roles, amevs: am, reqs: []int{1}, tx: [][2]int{{1, 0}}, apis: []int{apiTransaction}, extra: map[string]int{"lasttx": 1, "ncache": 1, "ctype0": apiPrepareRequest, "csame": 1, "mntx": 1}},
		// Inv 7 (every proposed-but-absent hash stays requestable) under the other APIs that touch the lists
		{roles: roles, amevs: am, reqs: []int{0}, apis: []int{apiPrepareRequest}, extra: map[string]int{"mntx": 2}},
		{roles: roles, amevs: am, reqs: []int{1}, tx: [][2]int{{1, 0}}, apis: []int{apiChangeView, apiTimeout, apiPrepareResponse}},
	}
	if tier == "thorough" {
		cells = append(cells, cellSpec{roles: roles, amevs: am, reqs: []int{1}, tx: [][2]int{{1, 0}}, apis: []int{apiTransaction}, extra: map[string]int{"lasttx": 1, "ncache": 1, "ctype0": apiPrepareRequest, "csame": 1, "mntx": 2}})
		cells = append(cells, cellSpec{roles: roles, amevs: am, reqs: []int{0}, apis: []int{apiRecoveryMessage}, extra: map[string]int{"rreq": 1, "mntx": 1}})
	}
	p := stepPlan("C12", tier, want, cells, 900)
	p.MustCover = []string{"C12.O2.last", "step.end", "event.broadcast.prepareresponse", "event.broadcast.changeview"}
	p.MustAssert = []string{"C12.O2.answered", "INV"}
	p.Bounds["transactions"] = "proposals with 1..2 transactions; the supplied transaction is the last missing one (answer owed) or one of two (no answer owed, bookkeeping only)"
	p.Bounds["cache"] = "dedicated cells hold one cached PrepareRequest of a higher view at the same height (with 1..2 transactions) so that the view change and the next proposal happen inside OnTransaction"
	p.Explanation = "One-step symbolic execution of the real OnTransaction from an arbitrary Inv state of a backup that has stored the proposal, holds all but the supplied transaction, has not answered and is not itself asking for a view change: after the call a PrepareResponse for that proposal or a ChangeView was broadcast. Inv conjunct 7 (every proposed hash that is not held is in MissingTransactions while an answer is owed) is asserted on every post-state, including the post-state after a nested view change that replays a cached proposal with its own transaction list."
	return p
}

func planC05(tier string) *Plan {
	want := []string{"C05"}
	am := []int{0, 1}
	dec := map[string]int{"decided": 1}
	cells := []cellSpec{
		// O1/O2: after the decision nothing but replies to recovery requests
		{roles: []int{0, 1, -1}, amevs: am, maxs: []int{0, 1}, reqs: []int{1}, apis: []int{apiTimeout, apiNewTransaction}, extra: dec},
		{roles: []int{0, 1, -1}, amevs: am, reqs: []int{1}, apis: allMsgApis[:6], extra: dec},
		{roles: []int{1}, amevs: am, reqs: []int{1}, tx: [][2]int{{1, 1}}, apis: []int{apiTransaction}, extra: dec},
		// O1: at most one ProcessBlock success per call, flag set
		{roles: []int{0, 1, -1}, amevs: am, reqs: []int{0, 1}, apis: []int{apiCommit, apiPrepareRequest, apiPreCommit}, extra: map[string]int{"decided": 2}},
	}
	cells = append(cells, recCells([]int{1}, am, []int{1})...)
	p := stepPlan("C05", tier, want, cells, 900)
	for _, j := range resetJobs(tier) {
		p.Jobs = append(p.Jobs, j)
	}
	p.MustCover = []string{"C05.O2.decided", "event.processblock", "step.end", "C05.reset.end", "C05.O5.cached", "C05.reset.viewchanged"}
	p.MustAssert = []string{"C05.O2.unchanged", "C05.O1.flag", "C05.O3.height", "C05.O3.validators", "C05.O3.subscription", "C05.O4.cache", "C05.O5.commit", "C05.O5.futurecached", "INV"}
	p.Explanation = "Two harnesses on the real code. (1) One step from an arbitrary DECIDED Inv state (blockProcessed) for every API: state fingerprint unchanged, no ProcessBlock/ProcessPreBlock, no timer call, no broadcast except a RecoveryMessage answering a RecoveryRequest; from undecided states at most one successful ProcessBlock per call and the flag is set with it. (2) Reset/Start from an arbitrary Inv state with a symbolic future-message cache, the ledger height jumping by any amount, the validator count and the own index changing: afterwards height = ledger+1, previous hash, validator list, own index, block times are the callbacks' values, view 0 unless M cached change views were replayed, tables sized to the new count holding only payloads of the entered height, flags cleared unless a block was processed in this very call, no cache inbox at or below the entered height (except re-cached higher-view payloads of that height), an admissible cached Commit/ChangeView of the entered height sits in its table."
	p.Bounds["reset"] = "validator counts (old,new) in {(4,4),(4,7)} (thorough adds (1,4),(4,1)); cache 1 payload of each type, and 3 change views from distinct senders"
	return p
}

func resetJobs(tier string) []*Job {
	var js []*Job
	type nn struct{ n, n2 int }
	pairs := []nn{{4, 4}, {4, 7}}
	if tier == "thorough" {
		// (an arbitrary Inv state at N=7 as the OLD state did not finish within the budget: outside the bound)
		pairs = append(pairs, nn{1, 4}, nn{4, 1})
	}
	for _, pr := range pairs {
		for _, start := range []int{0, 1} {
			for _, my2 := range []int{0, 1, -1} {
				if my2 >= pr.n2 {
					continue
				}
				for _, amev := range []int{0, 1} {
					cts := []int{apiCommit, apiChangeView, apiPrepareResponse, apiPrepareRequest, apiPreCommit}
					if start == 1 {
						cts = []int{-1}
					}
					for _, ct := range cts {
						if ct == apiPreCommit && amev == 0 {
							continue
						}
						if ct < 0 {
							for _, mx := range []int{0, 1} {
								js = append(js, &Job{Pkg: dbftPkg, Entry: "H_reset", Solver: "z3-new", Want: []string{"C05"}, BudgetS: 900, Params: map[string]int{
									"n": pr.n2, "my": my2, "prim": 0, "amev": amev, "maxtpb": mx, "n2": pr.n2, "my2": my2, "start": 1, "npool": mx}})
							}
							continue
						}
						mx := 0
						if ct == apiCommit || ct == apiChangeView {
							mx = 1 // the dynamic-block-time state (subscription flag) must not survive either
						}
						j := &Job{Pkg: dbftPkg, Entry: "H_reset", Solver: "z3-new", Want: []string{"C05"}, BudgetS: 900, Params: map[string]int{
							"n": pr.n, "my": 1 % pr.n, "prim": 0, "amev": amev, "maxtpb": mx, "req": 1, "ntx": 0, "txmask": 0,
							"n2": pr.n2, "my2": my2, "start": start, "ncache": 1, "ctype0": ct, "mntx": 0}}
						js = append(js, j)
						if ct == apiChangeView && pr.n2 == 4 && my2 != 1 {
							// M cached change views of the entered height: nested view change during Reset
							q := &Job{Pkg: dbftPkg, Entry: "H_reset", Solver: "z3-new", Want: []string{"C05"}, BudgetS: 900, Params: map[string]int{
								"n": pr.n, "my": 1 % pr.n, "prim": 0, "amev": amev, "maxtpb": 0, "req": 1, "ntx": 0, "txmask": 0,
								"n2": pr.n2, "my2": my2, "start": start, "ncache": 3, "ctype0": ct, "ctype1": ct, "ctype2": ct, "mntx": 0, "chit": 1, "cfix": 1}}
							js = append(js, q)
						}
					}
				}
			}
		}
	}
	return js
}

func planC15(tier string) *Plan {
	want := []string{"C15"}
	p := &Plan{Property: "C15", Tier: tier, Patterns: []string{"."}}
	ns := []int{4, 1}
	pools := []int{0, 2}
	incs := []int{0, 1}
	if tier == "thorough" {
		ns = []int{1, 2, 4, 7}
		pools = []int{0, 1, 2, 3}
		incs = []int{0, 1, 2}
	}
	for _, n := range ns {
		for _, tsinc := range incs {
			// division/truncation by the increment: bit-blasting back ends need ~90 s per job,
			// cvc5's bit-vectors-as-integers translation < 10 s (DESIGN §2)
			solver := "cvc5-int"
			for _, npool := range pools {
				for _, amev := range []int{0, 1} {
					for _, mx := range []int{0, 1} {
						for _, api := range []int{apiTimeout, apiNewTransaction} {
							if api == apiNewTransaction && mx == 0 {
								continue
							}
							c := stepCfg{n: n, my: 0, prim: 0, amev: amev, maxtpb: mx, req: 0, api: api, extra: map[string]int{"npool": npool, "tsinc": tsinc, "decided": 2}}
							j := stepJob(c, want)
							j.Solver = solver
							j.BudgetS = 600
							p.Jobs = append(p.Jobs, j)
						}
						// the proposal made by Start
						j := &Job{Pkg: dbftPkg, Entry: "H_reset", Solver: solver, Want: want, BudgetS: 600, Params: map[string]int{
							"n": n, "my": 0, "prim": 0, "amev": amev, "maxtpb": mx, "n2": n, "my2": 0, "start": 1, "npool": npool, "tsinc": tsinc, "prim2set": 1, "prim2": 0}}
						p.Jobs = append(p.Jobs, j)
					}
				}
			}
		}
	}
	// the block/pre-block the primary builds later comes from lazily built headers: none of an
	// earlier view may survive a view change (Inv conjuncts 5 and 12 on the post-state)
	for _, amev := range []int{0, 1} {
		for _, my := range []int{1, 3} {
			c := stepCfg{n: 4, my: my, prim: 0, amev: amev, req: 1, api: apiChangeView}
			j := stepJob(c, want)
			j.BudgetS = 600
			p.Jobs = append(p.Jobs, j)
		}
	}
	p.MustCover = []string{"C15.proposal", "event.processblock"}
	p.MustAssert = []string{"C15.O1.increasing", "C15.O2.value", "C15.O2.clock", "C15.O3.args", "C15.O3.pool", "C15.O4.context", "C15.O4.block", "INV"}
	p.Assumptions = append([]string{
		"previous block timestamp and clock reading below 2^62, TimestampIncrement in [1, 2^40] (no 64-bit overflow of lastBlockTimestamp + increment)",
		"GetVerified returns pairwise distinct transactions",
	}, append(append([]string{}, stepAssumptions...), commonAssumptions...)...)
	p.Bounds = map[string]string{
		"validators":  fmt.Sprintf("N in %v, the node is the primary of the current view", ns),
		"pool":        fmt.Sprintf("verified pool of %v transactions with symbolic hashes", pools),
		"increment":   "the default 10^6 ns; ANY increment in [1, 2^40] (cvc5 bit-vectors as integers); thorough adds any power of two as a shift",
		"clock":       "symbolic clock reading (behind, equal, ahead of the previous block's timestamp; unaligned)",
		"entry_points": "OnTimeout and OnNewTransaction from an arbitrary Inv state of a primary that has not proposed yet; Start on a fresh instance",
	}
	p.Outside = []string{"pools with more than 3 transactions", "64-bit overflow of the timestamp (year 2116 and later)"}
	p.Explanation = "Symbolic execution of the real OnTimeout/OnNewTransaction/Start on the proposing branch (sendPrepareRequest -> makePrepareRequest -> Context.Fill -> getTimestamp) with the previous block's timestamp, the clock reading, the timestamp increment and the pool content as solver variables. At the PrepareRequest broadcast the solver proves: timestamp > previous timestamp; timestamp = max(previous + increment, clock truncated to the increment) with the truncation's defining properties; NewPrepareRequest received exactly (timestamp, nonce, pool hashes in order) and the payload carries them; the context holds the same values and every pool transaction; every NewBlockFromContext call of the primary sees those values."
	return p
}

func planC01(tier string) *Plan {
	want := []string{"C01", "C02", "C03"}
	am := []int{0, 1}
	cells := []cellSpec{
		// L3 decision certificate, L4 binding, L5 height isolation: the APIs that can reach ProcessBlock or store commits
		{roles: []int{0, 1}, amevs: am, reqs: []int{0, 1}, apis: []int{apiPrepareRequest, apiCommit, apiPreCommit, apiPrepareResponse}},
		{roles: []int{-1}, amevs: am, reqs: []int{0, 1}, apis: []int{apiCommit}},
		// L1/L2 commit lock and single commit: the APIs that can change view or send
		{roles: []int{0, 1}, amevs: am, reqs: []int{1}, apis: []int{apiChangeView, apiTimeout, apiRecoveryRequest}},
		{roles: []int{1}, amevs: am, reqs: []int{1}, tx: [][2]int{{1, 0}}, apis: []int{apiTransaction}},
	}
	cells = append(cells, cellSpec{roles: []int{1}, amevs: am, reqs: []int{1}, apis: []int{apiRecoveryMessage}, extra: map[string]int{"rcv": 1}},
		cellSpec{roles: []int{1}, amevs: am, reqs: []int{0}, apis: []int{apiRecoveryMessage}, extra: map[string]int{"rc": 1}},
		cellSpec{roles: []int{1}, amevs: []int{0}, reqs: []int{0}, apis: []int{apiRecoveryMessage}, extra: map[string]int{"rreq": 1}})
	if tier == "thorough" {
		cells = append(cells, cellSpec{roles: []int{1}, amevs: []int{1}, reqs: []int{0}, apis: []int{apiRecoveryMessage}, extra: map[string]int{"rreq": 1}})
		cells = append(cells, cellSpec{roles: []int{0, 1, 2, -1}, amevs: am, reqs: []int{0, 1}, apis: allApis})
		cells = append(cells, recCells([]int{0, 1, 2}, am, []int{0, 1})...)
	}
	p := stepPlan("C01", tier, want, cells, 900)
	maxN := 10
	for n := 1; n <= maxN; n++ {
		j := job("H_C01_intersect", "z3-new", "n", n)
		j.Timeout = 60000
		p.Jobs = append(p.Jobs, j)
	}
	for _, e := range []string{"quorum"} {
		j := job("H_C06_"+e, "cvc5-int")
		j.Timeout = 60000
		p.Jobs = append(p.Jobs, j)
	}
	p.MustCover = []string{"C01.Q.reached", "event.processblock", "C03.O3.committed", "step.end"}
	p.MustAssert = []string{"C01.Q.intersect", "C01.Q.lockedblocksview", "C06.O2.intersect", "C02.O1.certificate", "C03.O3.view", "C03.O2.slot", "C03.O3.nocv.commit", "INV"}
	p.Bounds["composition"] = "per-node obligations at N=4 (one inductive step from any Inv state); quorum intersection as a set query for every N in 1..10 and as arithmetic (2M-N >= F+1) for every N in 1..65535"
	p.Outside = append(p.Outside, "the step from the per-node obligations to the multi-node statement is a paper argument (DESIGN §6 C01): two accepted blocks b != b' at one height give, by L3 and Q, an honest validator whose valid commits are counted for both; by L4 it signed both; L1/L2 forbid that", "states that are reachable only through known finding KF-1")
	p.Explanation = "Agreement is decided compositionally. Solver-decided on the real code (one symbolic step of every relevant API from every Inv state, N=4): L1 commit lock and L2 single commit with identical retransmissions (the C03 obligations), L3 decision certificate: every successful ProcessBlock holds >= M current-view commits verifying against exactly that block (C02.O1), L4 the own commit signs the header built from the stored proposal and L5 only payloads of the node's height are stored (Inv conjuncts 3, 5, 11, 12, asserted on every post-state). Solver-decided on the real M()/F(): any two M-sets minus any F-set intersect (every N <= 10 as a bit-set query, every N <= 65535 arithmetically), and M-F locked honest validators leave fewer than M possible change-view senders."
	return p
}

func planC09(tier string) *Plan {
	want := []string{"C09"}
	am := []int{0, 1}
	roles := []int{0, 1, 2, 3, -1}
	cells := []cellSpec{
		// L1 timeout ladder
		{roles: []int{0, 1, 2}, amevs: am, maxs: []int{0, 1}, reqs: []int{0, 1}, apis: []int{apiTimeout}, extra: map[string]int{"decided": 2}},
		// L2 responder selection: every own index, the sender symbolic
		{roles: roles, amevs: am, reqs: []int{0, 1}, apis: []int{apiRecoveryRequest, apiChangeView}},
		{roles: []int{1, 2}, amevs: am, reqs: []int{1}, apis: []int{apiRecoveryRequest}, extra: map[string]int{"watch": 1}},
		// L3 a recovery message from any view is processed at once
		{roles: []int{1, -1}, amevs: am, reqs: []int{0}, apis: []int{apiRecoveryMessage}, extra: map[string]int{"rcv": 1}},
	}
	if tier == "thorough" {
		cells = append(cells, cellSpec{roles: []int{1, -1}, amevs: am, reqs: []int{1}, apis: []int{apiRecoveryMessage}, extra: map[string]int{"rcv": 1}},
			cellSpec{roles: []int{1}, amevs: am, reqs: []int{0}, apis: []int{apiRecoveryMessage}, extra: map[string]int{"rreq": 1}})
	}
	p := stepPlan("C09", tier, want, cells, 900)
	for _, e := range []string{"distinctviews", "range", "quorum"} {
		j := job("H_C06_"+e, "cvc5-int")
		j.Timeout = 60000
		p.Jobs = append(p.Jobs, j)
	}
	p.MustCover = []string{"C09.L1.timeout", "C09.L2.request", "C09.L2.answered", "event.broadcast.changeview", "event.broadcast.recoveryrequest", "event.broadcast.recoverymessage", "C06.distinctviews"}
	p.MustCover = append(p.MustCover, "C09.L3.changeview")
	p.MustAssert = []string{"C09.L1.acts", "C09.L1.rearmed", "C09.L1.resend", "C09.L1.changeview", "C09.L1.recoveryrequest", "C09.L2.responders", "C09.L3.notcached", "C09.L3.changeview", "C06.O4.distinctviews", "INV"}
	p.Outside = append(p.Outside, "THE EMERGENT CLAIM IS NOT DECIDED: that the live validators of a network actually decide after partitions heal / nodes restart is a whole-network liveness property over virtual time; only the per-node ingredients below are solver-decided",
		"recovery transfer (a behind node adopting a peer's state from one recovery message) is examined only through the Inv/step obligations of OnReceive(RecoveryMessage) in C02-C04, not as an end-to-end lemma")
	p.Explanation = "Local lemmas of recovery liveness on the real code, each one symbolic step from every Inv state (N=4): (L1) OnTimeout for the current epoch on an undecided validator always acts (proposal, ChangeView, RecoveryRequest, RecoveryMessage, or the dynamic-block-time deferral) and re-arms the timer; a committed node resends its state and never asks for a view change; a timeout-driven ChangeView is sent only while at most F validators are committed or lost, a RecoveryRequest only otherwise. (L2) A recovery request (or a ChangeView for a view already reached) is answered exactly by the committed nodes and by the F+1 validators following the sender, never by a watch-only node, with one message. (L4, with C06) the primaries of any n consecutive views are pairwise distinct for every n, so a view with a live primary is reached after at most #silent view changes."
	return p
}

func planC16(tier string) *Plan {
	want := []string{"C16"}
	cells := []cellSpec{
		{roles: []int{0, 1}, amevs: []int{0, 1}, maxs: []int{1}, reqs: []int{0}, apis: []int{apiTimeout, apiNewTransaction}, extra: map[string]int{"decided": 2}},
		{roles: []int{0, 1}, amevs: []int{0}, maxs: []int{1}, reqs: []int{0}, apis: []int{apiTimeout, apiNewTransaction}, extra: map[string]int{"decided": 2, "npool": 1}},
		{roles: []int{1}, amevs: []int{0, 1}, maxs: []int{1}, reqs: []int{1}, apis: []int{apiTimeout, apiNewTransaction}, extra: map[string]int{"decided": 2}},
		// O4: extension not configured: SubscribeForTxs is nil, a call would panic
		{roles: []int{0, 1, -1}, amevs: []int{0, 1}, maxs: []int{0}, reqs: []int{0, 1}, apis: []int{apiTimeout, apiNewTransaction, apiChangeView, apiPrepareRequest}},
	}
	p := stepPlan("C16", tier, want, cells, 900)
	for _, j := range resetJobs(tier) {
		if j.Params["n"] == 4 && j.Params["n2"] == 4 && (j.Params["start"] == 1 || j.Params["ctype0"] == apiCommit) {
			c := *j
			c.Want = want
			p.Jobs = append(p.Jobs, &c)
		}
	}
	p.PanicsCount = true
	p.MustCover = []string{"C16.O1.defer", "C16.O1.forced", "C16.O2.defer", "C16.O2.notify", "step.end", "C16.reset"}
	p.MustAssert = []string{"C16.O1.defer", "C16.O1.defer.state", "C16.O1.propose", "C16.O1.forced", "C16.O2.defer", "C16.O2.defer.state", "C16.O2.notify", "C16.O2.ignored", "C16.O4.nosubscribe", "C16.reset.subscription", "INV"}
	p.Outside = append(p.Outside, "THE NETWORK-LEVEL CLAIM IS NOT DECIDED: spacing of consecutive proposals on a fault-free synchronous network of 1..7 nodes under all delivery orders needs whole-network runs in virtual time; only the local timer algebra below is solver-decided")
	p.Explanation = "Local timer algebra of the dynamic-block-time extension on the real OnTimeout/OnNewTransaction, one symbolic step from every Inv state at view 0 (N=4, MaxTimePerBlock >= TimePerBlock symbolic): an idle primary whose timer expires with an empty pool does not propose, subscribes once and re-arms for max-min; its next expiry or a new-transaction notification produces the proposal in that very call; a backup whose timer expires with an empty pool does not ask for a view change, subscribes and re-arms for 2*max-2*min (non-negative); a notification re-arms it for 2*min without a ChangeView; a notification without an active subscription changes nothing. With the extension not configured no path subscribes (SubscribeForTxs is nil: a call would be a panic, which is a violation here)."
	return p
}

func planC14(tier string) *Plan {
	want := []string{"C14"}
	p := &Plan{Property: "C14", Tier: tier, Patterns: []string{"."}}
	am := []int{0}
	if tier == "thorough" {
		am = []int{0, 1}
	}
	add := func(pm map[string]int) {
		base := map[string]int{"n": 4, "prim": 0, "maxtpb": 0, "ntx": 0, "txmask": 0, "ncache": 0, "npool": 0, "rtt": 0, "mntx": 0}
		for k, v := range pm {
			base[k] = v
		}
		p.Jobs = append(p.Jobs, &Job{Pkg: dbftPkg, Entry: "H_c14", Solver: "cvc5-int", Want: want, BudgetS: 1200, Timeout: 60000, Params: base})
	}
	for _, amev := range am {
		// (a) the primary proposes: timestamp from the clock, prepareSentTime, timer
		for _, mx := range []int{0, 1} {
			for _, np := range []int{0, 1} {
				add(map[string]int{"my": 0, "req": 0, "amev": amev, "api": apiTimeout, "maxtpb": mx, "npool": np})
			}
		}
		add(map[string]int{"my": 0, "req": 0, "amev": amev, "api": apiNewTransaction, "maxtpb": 1, "npool": 1})
		// (b) the primary receives a response: round-trip estimate
		for _, sp := range []int{2, 3, 4} {
			add(map[string]int{"my": 0, "req": 1, "amev": amev, "api": apiPrepareResponse, "split": sp})
		}
		// (c) view change: the new view's timer is computed from lastBlockTime and the rtt average
		for _, my := range []int{1, 3} {
			add(map[string]int{"my": my, "req": 0, "amev": amev, "api": apiChangeView})
		}
		// (d) timeouts of a backup: ChangeView / RecoveryRequest timestamps, timers
		for _, req := range []int{0, 1} {
			add(map[string]int{"my": 1, "req": req, "amev": amev, "api": apiTimeout})
		}
		add(map[string]int{"my": 1, "req": 0, "amev": amev, "api": apiTimeout, "maxtpb": 1})
		// (e) a backup accepts the proposal: lastBlockTime is taken from the clock
		add(map[string]int{"my": 1, "req": 0, "amev": amev, "api": apiPrepareRequest})
		// (f) re-initialisation: timer from lastBlockTime, lastBlockTimestamp from the argument
		for _, my := range []int{0, 1} {
			add(map[string]int{"my": my, "req": 1, "amev": amev, "api": apiReset})
		}
	}
	if tier == "thorough" {
		for _, sp := range []int{2, 3, 4} {
			add(map[string]int{"my": 0, "req": 1, "amev": 0, "api": apiPrepareResponse, "split": sp, "rtt": 1})
		}
		add(map[string]int{"my": 1, "req": 0, "amev": 0, "api": apiChangeView, "rtt": 1})
	}
	sort.SliceStable(p.Jobs, func(a, b int) bool { return jobWeight(p.Jobs[a]) > jobWeight(p.Jobs[b]) })
	lj := job("H_c14_lemma", "cvc5-int", "tsinc", 0)
	lj.Timeout = 60000
	p.Jobs = append(p.Jobs, lj)
	p.MustCover = []string{"C14.lemma", "C14.world1", "C14.world2", "C14.timer", "C14.broadcast", "C14.proposed", "C14.end"}
	p.MustAssert = []string{"C14.lemma.truncation", "C14.broadcast.ts", "C14.events.count", "C14.events.kind", "C14.timer.duration", "C14.broadcast.payload", "C14.state.scalars", "C14.state.tables", "C14.state.times", "C14.state.timestamp", "C14.state.rtt", "C14.state.timer"}
	p.Assumptions = append([]string{
		"the offset between the two clocks is ANY multiple of the timestamp increment up to 2^50 ns (13 days; default increment 10^6 ns); clock readings and block timestamps below 2^61",
		"world 2 is world 1 with every absolute time reference shifted (injected clock, lastBlockTime, prepareSentTime, lastBlockTimestamp, the Reset argument); durations, rtt estimates, stored payloads and callback results are identical",
		"the machine's wall clock (time.Now, time.Since) is a fresh unrelated value at every reading in each world",
		"random components (proposal nonce, signature randomiser) are not compared",
		"when the node is the primary and has not proposed yet, no preparations/commits of other validators are stored (they would name or sign a proposal that has a different hash in the shifted world)",
	}, append(append([]string{}, stepAssumptions...), commonAssumptions...)...)
	p.Bounds = map[string]string{
		"validators": "N = 4",
		"steps":      "ONE API call in each world from an arbitrary pair of related Inv states (relational inductive step: related pre-states give equal events and related post-states, hence whole scripted runs)",
		"apis":       "OnTimeout, OnNewTransaction, OnReceive(PrepareRequest/PrepareResponse/ChangeView), Reset; the APIs whose code reads a clock or computes with stored instants",
		"rtt_table":  "quick: the 70-entry sample table is all zeros (symbolic average and index); thorough: symbolic table",
	}
	p.Outside = []string{"OnReceive(Commit/PreCommit/RecoveryRequest/RecoveryMessage) and OnTransaction (no clock reading on their own paths beyond what the covered callees do)", "offsets that are not multiples of the timestamp increment (the proposal timestamp is truncated to the increment, so such a shift is not an invariance of the specification itself)", "N other than 4"}
	p.Explanation = "Relational symbolic execution of the real code: two worlds that differ only by a constant offset of every absolute time reference run the same API call with the same arguments and callback results; readings of the machine's wall clock are unconstrained fresh values in each world. The solver proves, for every pair of related pre-states: same sequence of broadcasts (self-made timestamps shifted by the offset, everything else equal), same Timer.Reset/Extend durations, and related post-states (instants shifted, round-trip estimates and all other fields equal). Any dependence on the wall clock or on the absolute epoch makes one of these assertions satisfiable; the model is replayed natively (the two native runs read the real wall clock at different instants)."
	return p
}

func planC18(tier string) *Plan {
	p := &Plan{Property: "C18", Tier: tier, Patterns: []string{".", "./timer"}, PanicsCount: true}
	maxLen := 4
	if tier == "thorough" {
		maxLen = 5
	}
	var seqs [][]int
	var gen func(cur []int)
	gen = func(cur []int) {
		if len(cur) >= 1 {
			seqs = append(seqs, append([]int(nil), cur...))
		}
		if len(cur) == maxLen {
			return
		}
		for op := 1; op <= 4; op++ {
			if len(cur) == 0 && op > 2 {
				continue // the documented use starts with a Reset
			}
			if op == 4 && len(cur) > 0 && cur[len(cur)-1] == 4 {
				continue // two waits in a row are one wait
			}
			gen(append(cur, op))
		}
	}
	gen(nil)
	for _, sq := range seqs {
		pm := map[string]int{}
		for i, op := range sq {
			pm[fmt.Sprintf("op%d", i+1)] = op
		}
		p.Jobs = append(p.Jobs, &Job{Pkg: dbftPkg + "/timer", Entry: "H_timer", Solver: "cvc5-int", Want: []string{"C18"}, BudgetS: 300, Timeout: 30000, Params: pm})
	}
	p.MustCover = []string{"C18.sequence", "C18.zero"}
	p.MustAssert = []string{"C18.epoch", "C18.delivers", "C18.never.early", "C18.not.late", "C18.zero.immediate", "C18.zero.fresh"}
	p.Assumptions = append([]string{
		"Go >= 1.23 runtime timers (go.mod says 1.24): time.NewTimer(d) delivers one value on its channel at creation instant + d (at once for d <= 0) unless Stop was called before; after Stop no stale value can be received; an unreferenced timer delivers to nobody",
		"the machine clock is non-decreasing; every reading (time.Now, time.Since, inside NewTimer) is a fresh value not smaller than the previous one, so any amount of time may pass between two statements of the library",
		"single goroutine: the program observes C() only between operations",
		"durations on a 10 ms grid (0..50 ms) so that a solver model can be replayed in real time",
	}, commonAssumptions...)
	p.Bounds = map[string]string{
		"operations": fmt.Sprintf("every sequence of 1..%d operations from {Reset(h,v,d>0), Reset(h,v,0), Extend(x), let time pass} that starts with a Reset (%d sequences); heights, views, durations and all clock readings symbolic", maxLen, len(seqs)),
		"durations":  "symbolic multiples 0..5 of 10 ms",
	}
	p.Outside = []string{"sequences longer than the bound", "the Go runtime's own scheduling latency (trusted; the natively replayed bound allows 30 ms)", "concurrent use from several goroutines", "Extend before the first Reset (undocumented use)"}
	p.Explanation = "Symbolic execution of the real timer.New/Reset/Extend/stop/drain/C/Height/View against a model of Go's runtime timers and channels, with every clock reading a fresh non-decreasing solver variable. After each operation sequence the harness observes C() and the solver proves: Height/View are the latest reset's; the timer delivers; the delivery instant is >= (clock just before the latest Reset) + its duration + all extensions since (never early) and <= (clock after the last operation) + that total (no lost time); after a zero-duration reset the value is available at once and is that reset's own instant (no stale expiry of an earlier reset). Blocking forever (send on a full channel, receive on an empty one) is an implicit-panic violation."
	return p
}

func planC08(tier string) *Plan {
	p := &Plan{Property: "C08", Tier: tier, Patterns: []string{"."}, PanicsCount: true}
	add := func(n, my, prim, amev, ntx, early, dup int) {
		p.Jobs = append(p.Jobs, &Job{Pkg: dbftPkg, Entry: "H_c08", Solver: "z3-new", Want: []string{"C08"}, BudgetS: 3000,
			Params: map[string]int{"n": n, "my": my, "prim": prim, "amev": amev, "ntx": ntx, "early": early, "dup": dup}})
	}
	// N=4 first (the long jobs), then the small ones
	for _, my := range []int{1, 3, 0} {
		add(4, my, 0, 0, 1, 0, 0)
	}
	add(4, 2, 0, 0, 0, 1, 0)
	add(4, 1, 0, 0, 0, 2, 0)
	if tier == "thorough" {
		add(4, 2, 0, 0, 1, 0, 1)
		add(4, 0, 0, 0, 0, 0, 1)
		add(4, 1, 2, 0, 1, 2, 0)
		add(4, 3, 2, 0, 0, 1, 1)
	}
	for _, amev := range []int{0, 1} {
		for _, my := range []int{0, 1, 2} {
			for _, early := range []int{0, 1, 2} {
				for _, dup := range []int{0, 1} {
					if my == 0 && early > 0 {
						continue // the primary's peers cannot answer a proposal that does not exist yet
					}
					if amev == 1 && dup == 1 && tier != "thorough" {
						continue // 7 deliveries of 6 messages: 15120 orders, 25 min per role
					}
					add(3, my, 0, amev, 1-amev, early, dup)
				}
			}
		}
	}
	for _, my := range []int{0, 1} {
		add(2, my, 0, 0, 0, 0, 1)
		add(1, 0, 0, 0, 0, 0, 0)
	}
	// entering the next height: what arrives between the decision and Reset must be kept (one
	// inductive step from every decided / undecided Inv state, N=4)
	for _, dec := range []int{1, 2} {
		for _, amev := range []int{0, 1} {
			for _, api := range []int{apiPrepareRequest, apiPrepareResponse, apiCommit, apiPreCommit, apiChangeView} {
				j := stepJob(stepCfg{n: 4, my: 1, prim: 0, amev: amev, req: 1, api: api, extra: map[string]int{"decided": dec}}, []string{"C08"})
				j.BudgetS = 600
				p.Jobs = append(p.Jobs, j)
			}
		}
	}
	p.MustCover = []string{"C08.round.delivered", "event.processblock", "event.processpreblock", "C05.O5.future"}
	p.MustAssert = []string{"C08.decided", "C08.view0", "C08.nocomplaints", "C08.own.messages", "C08.block", "C08.early.cached", "C08.entered", "C05.O5.futurecached"}
	p.Assumptions = append([]string{
		"fault-free round: the N-1 peers are played by the harness and send exactly the messages honest validators send for the proposal (valid signatures/pre-commit data, responses naming the proposal); all application callbacks succeed; every proposed transaction is available locally",
		"synchronous: no timeout is delivered during the round",
		"the multi-node statement follows because in a fault-free round each validator's emissions depend only on what it received, and every receive order is one of the permutations explored for that validator",
	}, commonAssumptions...)
	p.Bounds = map[string]string{
		"validators": "N = 4 without the anti-MEV extension (6 peer messages, all 720 orders per role), N = 3 with and without it (6 resp. 4 messages), N = 1, 2",
		"orders":     "EVERY delivery order of the round's messages at one validator (forks on fresh boolean picks); quick: up to 2 messages delivered before the height is entered (future-message cache + Reset) and one duplicated message at N = 3; thorough adds duplicates and early prefixes at N = 4",
		"contents":   "ledger height and tip, timestamps, nonce, transaction hash, clock, signature randomisers symbolic",
		"heights":    "one round; entering it either by Start or by Reset from the previous height with early messages cached",
	}
	p.Outside = []string{"anti-MEV at N = 4 (9 messages: 362880 orders)", "N >= 5", "several consecutive rounds in one run (covered by the inductive step checks C05/C10 instead)", "a watch-only observer (not a validator): it does not decide from consensus messages when all commits reach it before the proposal -- observed, stated here, outside the statement"}
	p.Explanation = "Bounded symbolic execution of the real Start/Reset/OnReceive sequence at one validator for a complete fault-free round: the executor forks on every choice of the next message, so every delivery order (including orders in which responses, pre-commits and commits precede the proposal, messages that arrive before the height is entered and go through the cache, and a duplicated message) is explored, each with all message contents symbolic. At the end of every order the solver proves: the block was handed over exactly once, in view 0, it is the proposed block; no ChangeView and no RecoveryRequest was broadcast; own proposal/response/commit at most once. No implicit panic on any path."
	return p
}

func planC17(tier string) *Plan {
	p := &Plan{Property: "C17", Tier: tier, Patterns: []string{".", "./internal/simulation"}, PanicsCount: true}
	bounds := []int{2, 3, 4, 5}
	if tier == "thorough" {
		bounds = []int{6, 2, 3, 4, 5} // 6 iterations: 5589 paths, about 11 min; 7 did not finish in 10 min
	}
	for _, b := range bounds {
		p.Jobs = append(p.Jobs, &Job{Pkg: dbftPkg + "/internal/simulation", Entry: "H_sim", Solver: "z3-new", Want: []string{"C17"}, BudgetS: 2400,
			Params: map[string]int{"selbound": b}, Redirect: simRedirect})
	}
	p.MustCover = []string{"C17.event", "C17.block", "C17.loop.exit"}
	p.MustAssert = []string{"C17.reinitialised", "C17.timerchannel", "C17.height", "C17.ledger"}
	p.Assumptions = append([]string{
		"the library instance is replaced by its CONTRACT, each clause of which is solver-checked on the real library code by the step checks: Start/Reset put the instance at CurrentHeight()+1 and undecided (C05.O3); an undecided instance may hand exactly one block, with index = its height, to ProcessBlock during an OnReceive/OnTimeout call and is decided afterwards (C02.O3, C05.O1); a decided instance ignores every timeout and payload until Reset (C05.O2)",
		"the environment decides which select case is ready in each iteration (timer, message, cancellation): a fresh choice; whether an event completes the round is a fresh boolean",
		"zap logging is stubbed",
	}, commonAssumptions...)
	p.Bounds = map[string]string{
		"iterations": fmt.Sprintf("the real Run loop for up to %d iterations (every interleaving of timer expiries and messages, every choice of which events complete a round or re-arm the timer), then cancellation", map[bool]int{true: 6, false: 5}[tier == "thorough"]),
		"nodes":      "ONE node's event loop with its real callbacks (ProcessBlock, CurrentHeight, CurrentBlockHash); the ledger height at start is symbolic",
	}
	p.Outside = []string{"goroutine schedules of the multi-node program, wall-clock pacing (\"roughly the configured block interval\"), agreement between nodes (C01) and the real payload/crypto code of internal/consensus (gob, SHA-256, ECDSA: not encodable, see C19) are NOT decided", "a violation is replayed by running the real simulation binary (4 validators, 13 s) and observing that no height beyond 1 is accepted"}
	p.Explanation = "Symbolic execution of the simulation's real event loop (simNode.Run with its select, simNode.ProcessBlock, CurrentHeight) against the library's contract: the four library calls the loop makes are redirected to summaries that state exactly what the step checks prove about the real library. The solver explores every sequence of select outcomes up to the bound and proves that no timer expiry or message is ever delivered to an instance that has already handed its block over without having been re-initialised (such an instance never acts again, so the chain would stop), that the instance always works on the height after the application's tip, and that the application's ledger grows by exactly one per decided round."
	return p
}
